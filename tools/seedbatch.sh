#!/bin/bash
# tools/seedbatch.sh <suffix> [ids...]   e.g. tools/seedbatch.sh c C01 C02
SUF=$1; shift
IDS="$@"; [ -z "$IDS" ] && IDS="C01 C02 C03 C04 C05 C06 C07 C08 C09 C10 C11 C12 C13 C14 C15 C16 C17 C18 C19 C20"
for p in $IDS; do
  W=/tmp/mut/${p}${SUF}
  [ -f $W/demo.py ] || { echo "$p: no demo yet"; continue; }
  OUT=$(/verif/tools/seedcheck.sh $W ${p}-${SUF} $p 2>&1)
  D0=$(echo "$OUT" | grep -A3 "demo on unmodified" | grep "exit=" | head -1)
  T=$(echo "$OUT" | grep -A1 "tests with change" | tail -1 | cut -c1-30)
  D1=$(echo "$OUT" | grep -A4 "demo with change" | grep "exit=" | head -1)
  V=$(echo "$OUT" | grep -c "^VIOLATION")
  K=$(echo "$OUT" | grep "key=" | sed 's/.*key=\([^ ]*\).*/\1/' | sort -u | head -3 | tr '\n' ' ')
  echo "$p-$SUF unmodified:$D0 tests:[$T] changed:$D1 violations=$V $K"
done
