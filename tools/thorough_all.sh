#!/bin/bash
# tools/thorough_all.sh : every property's thorough check on the unchanged tree, one after the other; one summary line each.
cd "$(dirname "$0")/.."
for P in C01 C02 C03 C04 C05 C06 C07 C08 C09 C10 C11 C12 C13 C14 C15 C16 C17 C18 C19 C20; do
  T0=$(date +%s)
  OUT=$(/venv/bin/python vf/run.py $P --tier thorough 2>&1); RC=$?
  echo "$P rc=$RC $(( $(date +%s)-T0 ))s $(echo "$OUT" | grep -E 'VIOLATION|INCONCLUSIVE|KNOWN|key=' | head -4 | cut -c1-600)"
done
