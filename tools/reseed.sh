#!/bin/bash
# tools/reseed.sh [seed-ids...] : re-apply every confirmed seeded change to a fresh scratch worktree of /repo and require
# the property's quick check to report it (exit 1) at every workload seed in $RESEED_SEEDS (default "0 5": a catch that
# depends on the draw is not a catch).  Prints one line per seed; exit 1 if any seeded change is no longer caught.
cd /verif
IDS="$@"; [ -z "$IDS" ] && IDS=$(ls seeded)
BAD=0
for s in $IDS; do
  P=$(python3 -c "import json;m=json.load(open('seeded/$s/meta.json'));print('SKIP' if m.get('not_pursued') else m['breaks_property'])")
  [ "$P" = SKIP ] && { echo "$s not-pursued (see meta.json)"; continue; }
  W=$(mktemp -d /tmp/reseed-XXXXXX)
  git -C /repo worktree add -q --detach $W/w HEAD >/dev/null 2>&1
  if ! git -C $W/w apply /verif/seeded/$s/patch.diff 2>/dev/null; then echo "$s $P PATCH-DOES-NOT-APPLY"; BAD=1
  else
    for SD in ${RESEED_SEEDS:-0 5}; do
      OUT=$(VERIF_SEED=$SD VERIF_FAILFAST=1 VERIF_REPO=$W/w /venv/bin/python vf/run.py $P --tier quick 2>&1); RC=$?
      K=$(echo "$OUT" | grep "key=" | sed 's/.*key=\([^ ]*\).*/\1/' | sort -u | head -2 | tr '\n' ' ')
      if [ $RC -eq 1 ]; then echo "$s $P seed=$SD caught $K"; else echo "$s $P seed=$SD NOT-CAUGHT rc=$RC"; BAD=1; fi
    done
  fi
  git -C /repo worktree remove --force $W/w >/dev/null 2>&1; rm -rf $W
done
git -C /repo worktree prune
exit $BAD
