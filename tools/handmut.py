#!/venv/bin/python
"""Hand-written single-edit changes (the 'Sensitivity' lists of DESIGN.md section 4 and more).  For each: copy /repo's
modules+test to a scratch dir outside /repo and /verif, apply the edit, run the repository's tests (a change that fails
them is not interesting), run the named property's quick check with VERIF_REPO pointing at the scratch copy, report
caught / MISSED.  Negative controls (behaviour-preserving edits) must stay silent.

   /venv/bin/python tools/handmut.py [name-substring ...]
"""
import json
import os
import shutil
import subprocess
import sys
import tempfile

REPO = "/repo"
VERIF = os.path.dirname(os.path.dirname(os.path.abspath(__file__)))
P = "modules/pel/peltool/"
IO = "modules/io_drawer/"

# (name, property, file, old, new, expect) expect: "caught" or "silent"
M = [
    # C01
    ("c01-default-len", "C01", P + "default.py", "self.dataLength = sectionLen - 8", "self.dataLength = sectionLen - 4", "caught"),
    ("c01-lp-pad", "C01", P + "imp_partition.py", "if self.targetLPcount % 2:", "if False and self.targetLPcount % 2:", "caught"),
    ("c01-range3", "C01", P + "peltool.py", "    for _ in range(2, ph.sectionCount):\n        sectionID, sectionLen, versionID, subType, componentID = parseHeader(\n            stream)\n        section_json = OrderedDict()\n        sectionFun(stream, section_json, sectionID, sectionLen,\n                   versionID, subType, componentID, ph.creatorID, config)\n        section_jsons.append",
     "    for _ in range(3, ph.sectionCount):\n        sectionID, sectionLen, versionID, subType, componentID = parseHeader(\n            stream)\n        section_json = OrderedDict()\n        sectionFun(stream, section_json, sectionID, sectionLen,\n                   versionID, subType, componentID, ph.creatorID, config)\n        section_jsons.append", "caught"),
    ("c01-number-from-1", "C01", P + "peltool.py", "counts[name] = [1, 0]", "counts[name] = [1, 1]", "silent"),   # first value is overwritten on repeat
    ("c01-number-from-1b", "C01", P + "peltool.py", "counts[name] = [counts[name][0]+1, 0]", "counts[name] = [counts[name][0]+1, 1]", "caught"),
    ("c01-symid", "C01", P + "extend_user_header.py", "self.stream.get_mem(self.symptomIDSize))", "self.stream.get_mem(self.symptomIDSize - 1))", "caught"),
    ("c01-ed-len", "C01", P + "ext_user_data.py", "dataLength = sectionLen - 4 - 8", "dataLength = sectionLen - 8", "caught"),
    ("c01-unknown-name", "C01", P + "peltool.py", "return sectionNames.get(id, 'Unknown')", "return sectionNames.get(id, id)", "caught"),
    # C02
    ("c02-swap-times", "C02", P + "private_header.py", "self.createTime = getTimestamp(self.stream)\n        self.commitTime = getTimestamp(self.stream)",
     "self.commitTime = getTimestamp(self.stream)\n        self.createTime = getTimestamp(self.stream)", "caught"),
    ("c02-hmc-shift", "C02", P + "user_header.py", "(self.states & 0x0000FF00) >> 8", "(self.states & 0x00FF0000) >> 16", "caught"),
    ("c02-drop-flag", "C02", P + "pel_values.py", "    0x0400: \"Isolation Incomplete, further analysis required\",\n", "", "caught"),
    ("c02-lpname-strip", "C02", P + "imp_partition.py", ".rstrip('\\x00')", "", "caught"),
    ("c02-bmcid-2bytes", "C02", P + "private_header.py", "self.obmcLogID = self.stream.get_int(4)", "self.stream.get_int(2); self.obmcLogID = self.stream.get_int(2)", "caught"),
    ("c02-sev-table", "C02", P + "pel_values.py", "0x21: \"Predictive Error, Degraded Performance\"", "0x21: \"Predictive Error, Degraded performance\"", "caught"),
    ("c02-zero-pad-ids", "C02", P + "private_header.py", "self.pLID = \"0x{:02X}\".format", "self.pLID = \"0x{:08X}\".format", "silent"),
    ("c02-eh-time", "C02", P + "extend_user_header.py", "self.refTime = getTimestamp(self.stream)", "self.refTime = getTimestamp(self.stream)[:16] + ':00'", "caught"),
    # C03
    ("c03-ccin-shift", "C03", P + "src.py", "(self.hexData[1] >> 16)", "(self.hexData[1] >> 8) & 0xFFFF", "caught"),
    ("c03-swap-masks", "C03", P + "src.py", "    deconfigured = 0x02000000\n    guarded = 0x01000000", "    deconfigured = 0x01000000\n    guarded = 0x02000000", "caught"),
    ("c03-mru-mask", "C03", P + "src.py", "for _ in range(self.flags & 0xf):", "for _ in range(self.flags & 0x7):", "caught"),
    ("c03-fru-order", "C03", P + "src.py", "        if self.flags & Flags.ccinSupplied.value:\n            self.ccin = bytes.decode(stream.get_mem(4)).strip(\"\\u0000\")\n            self.flattenedSize += 4\n",
     "", "caught"),
    ("c03-hexword-index", "C03", P + "src.py", "tmpWord = \"%08X\" % self.hexData[num]", "tmpWord = \"%08X\" % self.hexData[min(num, 6)]", "caught"),
    ("c03-priority", "C03", P + "src.py", "json[\"Priority\"] = calloutPriorityValues.get(\n                    callout.priority, 'Invalid')", "json[\"Priority\"] = calloutPriorityValues.get(\n                    callout.flags, 'Invalid')", "caught"),
    ("c03-pce-name", "C03", P + "src.py", "self.pceNameSize = self.flattenedSize - (4 + 8 + 12)", "self.pceNameSize = self.flattenedSize - (4 + 8 + 12) - (1 if self.flattenedSize > 60 else 0)", "caught"),
    ("c03-vprogress", "C03", P + "src.py", "virtualProgressSRC = 0x80", "virtualProgressSRC = 0x40", "caught"),
    # C04
    ("c04-disabled-inverted", "C04", P + "parse_user_data.py", "                d = dict()\n                if self.data:\n                    mv = memoryview(self.data)\n                    d[\"Data\"] = hexdump(mv)\n                return json.dumps(d)",
     "                d = dict()\n                if not self.data:\n                    mv = memoryview(self.data)\n                    d[\"Data\"] = hexdump(mv)\n                return json.dumps(d)", "caught"),
    ("c04-text-tilde", "C04", P + "parse_user_data.py", "ord(ch) > ord('~')", "ord(ch) >= ord('~')", "caught"),
    ("c04-none-nodump", "C04", P + "parse_user_data.py", "                     .format(self.creatorID, \"0x%04X\" % self.compID, self.subType, self.version))\n            if self.data:", "                     .format(self.creatorID, \"0x%04X\" % self.compID, self.subType, self.version))\n            if self.data and len(self.data) < 200:", "caught"),
    ("c04-dump-tail", "C04", P + "default.py", "mv = memoryview(self.data)", "mv = memoryview(self.data)[:4096]", "caught"),
    # C05
    ("c05-no-range-check", "C05", "modules/pel/datastream.py", "        if not self.check_range(num_bytes):\n            raise AssertionError(\"range check failure\")\n        o_mv =", "        o_mv =", "silent"),   # inc_index (called by get_mem) still checks: equivalent
    ("c05-narrow-barrier", "C05", P + "peltool.py", "    except Exception as e:\n        print(f\"Exception: No PEL parsed for {file_path}: {e}\", file=sys.stderr)", "    except AssertionError as e:\n        print(f\"Exception: No PEL parsed for {file_path}: {e}\", file=sys.stderr)", "caught"),
    ("c05-assert-again", "C05", "modules/pel/datastream.py", "        if not self.check_range(num_bytes):\n            raise AssertionError(\"range check failure\")\n        self.index += num_bytes", "        assert self.check_range(num_bytes), \"range check failure\"\n        self.index += num_bytes", "silent"),  # get_mem still checks
    ("c05-getmem-assert", "C05", "modules/pel/datastream.py", "        if not self.check_range(num_bytes):\n            raise AssertionError(\"range check failure\")\n        o_mv =", "        assert self.check_range(num_bytes), \"range check failure\"\n        o_mv =", "silent"),   # equivalent, see above
    ("c05-incindex-unchecked", "C05", "modules/pel/datastream.py", "        if not self.check_range(num_bytes):\n            raise AssertionError(\"range check failure\")\n        self.index += num_bytes", "        self.index += num_bytes", "silent"),  # get_mem still checks first
    ("c05-both-assert", "C05", "modules/pel/datastream.py", "        if not self.check_range(num_bytes):\n            raise AssertionError(\"range check failure\")\n        self.index += num_bytes", "        assert self.check_range(num_bytes), \"range check failure\"\n        self.index += num_bytes", "caught"),
    # C06
    ("c06-off-by-one", "C06", P + "peltool.py", "lines[i] = line[:ind] + spaces + line[ind:]", "lines[i] = line[:ind - 1] + spaces + line[ind - 1:]", "silent"),   # blanks between key and colon: still only whitespace between key and value
    ("c06-off-by-two", "C06", P + "peltool.py", "lines[i] = line[:ind] + spaces + line[ind:]", "lines[i] = line[:ind - 2] + spaces + line[ind - 2:]", "caught"),
    ("c06-old-bug", "C06", P + "peltool.py", "        ind = keyEndIndex(line)\n        if ind != -1 and \"{\" not in line:", "        ind = line.find('\":')\n        if ind != -1 and \"{\" not in line:", "caught"),
    ("c06-width", "C06", P + "peltool.py", "def prettyPrint(Mdata: str, desiredSpace: int = 34)", "def prettyPrint(Mdata: str, desiredSpace: int = 40)", "silent"),
    # C07
    ("c07-serviceable-hidden", "C07", P + "user_header.py", "                if not self.isHidden():\n                    return True", "                return True", "caught"),
    ("c07-term-50", "C07", P + "pel_types.py", "critSysTermSeverity = 0x51", "critSysTermSeverity = 0x50", "caught"),
    ("c07-only-hidden", "C07", P + "peltool.py", "    if config.hidden and uh.isHidden():\n        if config.only and config.severities and not considerPELIfSeverityMatches(uh, config):", "    if config.hidden and uh.isHidden():\n        if config.only and config.severities and False:", "caught"),
    ("c07-group-diag", "C07", P + "pel_values.py", "'Diagnostic':    6", "'Diagnostic':    3", "caught"),
    # C08
    ("c08-no-sort", "C08", P + "peltool.py", "    file_list.sort(reverse=rev)\n", "    if rev:\n        file_list.reverse()\n", "caught"),
    ("c08-count-ext", "C08", P + "peltool.py", "root, file_list = getFileList(path, config.extension)\n    for file in file_list:\n        with open(os.path.join(root, file), 'rb') as fd:\n            data = fd.read()\n            stream = DataStream(data, byte_order='big', is_signed=False)\n            try:\n                out = OrderedDict()",
     "root, file_list = getFileList(path, None)\n    for file in file_list:\n        with open(os.path.join(root, file), 'rb') as fd:\n            data = fd.read()\n            stream = DataStream(data, byte_order='big', is_signed=False)\n            try:\n                out = OrderedDict()", "caught"),
    ("c08-commit-create", "C08", P + "peltool.py", "summary[\"Commit Time\"] = ph.commitTime", "summary[\"Commit Time\"] = ph.createTime", "caught"),
    ("c08-break-ps", "C08", P + "peltool.py", "                summary[\"Message\"] = section_json[\"Primary SRC\"][\"Error Details\"][\"Message\"]\n            break", "                summary[\"Message\"] = section_json[\"Primary SRC\"][\"Error Details\"][\"Message\"]\n            continue", "silent"),
    ("c08-hex-rev", "C08", P + "peltool.py", "def listOption(path: str, config: Config):\n    root, file_list = getFileList(path, config.extension, config.rev)", "def listOption(path: str, config: Config):\n    root, file_list = getFileList(path, config.extension, config.rev and not config.hex)", "caught"),
    # C09
    ("c09-comma-before-try", "C09", P + "peltool.py", "                    if not config.hex:\n                        if firstPELPrinted:\n                            print(\",\")\n                        print(json_string, end = \"\")\n                        firstPELPrinted = True",
     "                    if not config.hex:\n                        print(json_string, end = \",\\n\")\n                        firstPELPrinted = True", "caught"),
    ("c09-stdout-diag", "C09", P + "peltool.py", "                print(f\"Exception: No PEL parsed for {file}: {e}\", file=sys.stderr)\n    if not config.hex:\n        if firstPELPrinted:", "                print(f\"Exception: No PEL parsed for {file}: {e}\")\n    if not config.hex:\n        if firstPELPrinted:", "caught"),
    ("c09-count-break", "C09", P + "peltool.py", "                ret, uh = generateUH(stream, ph.creatorID, out)\n                if not ret:\n                    continue", "                ret, uh = generateUH(stream, ph.creatorID, out)\n                if not ret:\n                    break", "caught"),
    # C10
    ("c10-bmcid-hex", "C10", P + "peltool.py", "if str(ph.obmcLogID) == config.bmcID:", "if hex(ph.obmcLogID)[2:] == config.bmcID:", "caught"),
    ("c10-src-eq", "C10", P + "peltool.py", "if config.src and config.src in summary['SRC']:", "if config.src and config.src == summary['SRC'][:len(config.src)]:", "caught"),
    ("c10-plid-lower", "C10", P + "peltool.py", "    pid = pid.upper()\n    if pid.startswith(\"0X\"):", "    if pid.upper().startswith(\"0X\"):", "caught"),
    # C11
    ("c11-walk-all", "C11", P + "peltool.py", "            os.remove(os.path.join(root, file))\n        # Only process top level directory\n        break\n\n\ndef processId", "            os.remove(os.path.join(root, file))\n\n\ndef processId", "caught"),
    ("c11-delete-all-matches", "C11", P + "peltool.py", "            os.remove(os.path.join(root, file))\n            foundID = True\n            break", "            os.remove(os.path.join(root, file))\n            foundID = True", "caught"),
    ("c11-list-removes", "C11", P + "peltool.py", "        except Exception as e:\n            print(f\"Exception: No PEL parsed for {file}: {e}\", file=sys.stderr)\n    return \"\", \"\"", "        except Exception as e:\n            print(f\"Exception: No PEL parsed for {file}: {e}\", file=sys.stderr)\n            if os.path.getsize(file) == 0:\n                os.remove(file)\n    return \"\", \"\"", "caught"),
    # C13
    ("c13-02x", "C13", "modules/pel/hexdump.py", "raw += (\"%02X\") % (b)", "raw += (\"%2X\") % (b)", "caught"),
    ("c13-parse-upper", "C13", "modules/pel/hexdump.py", "hex_digit = re.compile('^[0-9a-fA-F]$')", "hex_digit = re.compile('^[0-9A-F]$')", "caught"),
    ("c13-del-printable", "C13", "modules/pel/hexdump.py", "0x20 <= b < 0x7f", "0x20 <= b <= 0x7f", "silent"),
    ("c13-ctrl-printable", "C13", "modules/pel/hexdump.py", "0x20 <= b < 0x7f", "0x0a <= b < 0x7f", "caught"),
    # C14
    ("c14-mask", "C14", IO + "ilog.py", "REPORTED_MASK = 0x00040000", "REPORTED_MASK = 0x00080000", "caught"),
    ("c14-ts", "C14", IO + "utils.py", "(timestamp >= 0xFFFF)", "(timestamp > 0xFFFF)", "caught"),
    ("c14-zero-skip", "C14", IO + "ilog.py", "if (timestamp == 0) and (seq_num == 0) and (pte == 0x00000000):", "if (pte == 0x00000000):", "caught"),
    # C15
    ("c15-maxlen", "C15", IO + "trace.py", "if self.length > self.MAX_DATA_LEN:", "if self.length >= self.MAX_DATA_LEN:", "caught"),
    ("c15-pad8", "C15", IO + "trace.py", "            if (self.length % 4) != 0:\n                pad_size = 4 - (self.length % 4)", "            if (self.length % 8) != 0 and (self.length % 4) != 0:\n                pad_size = 4 - (self.length % 4)", "silent"),
    ("c15-binary-args", "C15", IO + "trace.py", "if (not self.is_binary_trace()) and (self.data is not None):", "if (self.data is not None):", "caught"),
    ("c15-maxargs", "C15", IO + "trace.py", "MAX_ARGS = 5", "MAX_ARGS = 4", "caught"),
    # C16
    ("c16-pad", "C16", IO + "hlog.py", "0x{value:0{field.size * 2}X}", "0x{value:0{field.size}X}", "caught"),
    ("c16-little", "C16", IO + "hlog.py", "stream = DataStream(data, byte_order='big', is_signed=False)", "stream = DataStream(data, byte_order='little', is_signed=False)", "caught"),
    # C17
    ("c17-no-sort", "C17", IO + "dump.py", "buffer_offsets = sorted(buffer_offsets)", "buffer_offsets = list(buffer_offsets)", "caught"),
    ("c17-rfind", "C17", IO + "dump.py", "offset = data_bytes.find(start_bytes)", "offset = data_bytes.rfind(start_bytes)", "caught"),   # since dumps with a repeated buffer name are generated: its FIRST occurrence is the header
    # C18
    ("c18-upper-mod", "C18", P + "parse_user_data.py", "name = (self.creatorID.lower() + \"%04X\" % self.compID).lower()", "name = (self.creatorID.lower() + \"%04X\" % self.compID)", "caught"),
    ("c18-swap-sub-ver", "C18", P + "parse_user_data.py", "return cls.parseUDToJson(self.subType, self.version, mv)", "return cls.parseUDToJson(self.version, self.subType, mv)", "caught"),
    ("c18-callout-plugins", "C18", P + "src.py", "                    if config.allow_plugins:\n                        self.getProcedureDesc(json[\"Procedure\"], json)", "                    if True:\n                        self.getProcedureDesc(json[\"Procedure\"], json)", "caught"),
    ("c18-m2c00-swap", "C18", "modules/udparsers/m2c00/m2c00.py", "SUB_TYPE_ILOG = 73\nSUB_TYPE_TRACE = 84", "SUB_TYPE_ILOG = 84\nSUB_TYPE_TRACE = 73", "silent"),  # the repo's test_m2c00 fails -> invalid
    ("c18-hexwords-from1", "C18", P + "src.py", "            return cls.parseSRCToJson(self.asciiString, hexwords[0], hexwords[1], hexwords[2],\n                                      hexwords[3], hexwords[4], hexwords[5], hexwords[6], hexwords[7])",
     "            return cls.parseSRCToJson(self.asciiString, hexwords[1], hexwords[1], hexwords[2],\n                                      hexwords[3], hexwords[4], hexwords[5], hexwords[6], hexwords[7])", "caught"),
    # C19
    ("c19-hexdata-class", "C19", P + "src.py", "        self.hexData = []\n        self.srcType = 0", "        self.srcType = 0", "caught"),   # + class attr below
    ("c19-targets-class", "C19", P + "imp_partition.py", "        self.targetLPs = []\n", "", "caught"),
    # C20
    ("c20-swap-node-attn", "C20", "modules/pel/hwdiags/parserdata.py", "node_pos  = int(word_b[4:6], base=16)\n        attn_type = int(word_b[6:8], base=16)", "node_pos  = int(word_b[6:8], base=16)\n        attn_type = int(word_b[4:6], base=16)", "caught"),
    ("c20-chunk", "C20", "modules/udparsers/oe500/oe500.py", "for i in range(0, len(data_buf), data_chunk_len):", "for i in range(0, len(data_buf) - len(data_buf) % data_chunk_len, data_chunk_len):", "caught"),
    ("c20-lower", "C20", "modules/pel/hwdiags/parserdata.py", "        sig_id  = sig_id.lower()\n", "", "caught"),
]

# behaviour-preserving refactors: every check must stay silent (exit 0)
M += [
    ("neg-rename-prettyPrint", "C06", P + "peltool.py", "ALL:prettyPrint", "alignOutput", "silent"),
    ("neg-rename-considerPEL", "C07", P + "peltool.py", "ALL:considerPEL", "selectPEL", "silent"),
    ("neg-rename-considerPEL-c08", "C08", P + "peltool.py", "ALL:considerPEL", "selectPEL", "silent"),
    ("neg-inline-parseHeader", "C01", P + "peltool.py",
     "    sectionID = stream.get_int(2)\n    sectionLen = stream.get_int(2)\n    versionID = stream.get_int(1)\n    subType = stream.get_int(1)\n    componentID = stream.get_int(2)\n    return sectionID, sectionLen, versionID, subType, componentID",
     "    import struct\n    return struct.unpack('>HHBBH', stream.get_mem(8))", "silent"),
    ("neg-inline-parseHeader-c05", "C05", P + "peltool.py",
     "    sectionID = stream.get_int(2)\n    sectionLen = stream.get_int(2)\n    versionID = stream.get_int(1)\n    subType = stream.get_int(1)\n    componentID = stream.get_int(2)\n    return sectionID, sectionLen, versionID, subType, componentID",
     "    import struct\n    return struct.unpack('>HHBBH', stream.get_mem(8))", "silent"),
    ("neg-targetlp-list", "C02", P + "imp_partition.py", "            out[\"Target LP\"] = \", \".join(\n                \"0x{:04X}\".format(lp) for lp in self.targetLPs)",
     "            out[\"Target LP\"] = [\"0x{:04X}\".format(lp) for lp in self.targetLPs]", "silent"),
    ("neg-getint-direct", "C01", "modules/pel/datastream.py", "        return int.from_bytes(self.get_mem(num_bytes),\n                              byteorder=byte_order, signed=is_signed)",
     "        if not self.check_range(num_bytes):\n            raise AssertionError(\"range check failure\")\n        raw = self.data[self.index: self.index + num_bytes]\n        self.index += num_bytes\n        return int.from_bytes(raw, byteorder=byte_order, signed=is_signed)", "silent"),
    ("neg-getint-direct-c05", "C05", "modules/pel/datastream.py", "        return int.from_bytes(self.get_mem(num_bytes),\n                              byteorder=byte_order, signed=is_signed)",
     "        if not self.check_range(num_bytes):\n            raise AssertionError(\"range check failure\")\n        raw = self.data[self.index: self.index + num_bytes]\n        self.index += num_bytes\n        return int.from_bytes(raw, byteorder=byte_order, signed=is_signed)", "silent"),
    ("neg-diag-wording", "C09", P + "peltool.py", "ALL:Exception: No PEL parsed for", "Skipped (not a PEL):", "silent"),
    ("neg-diag-wording-c05", "C05", P + "peltool.py", "ALL:Exception: No PEL parsed for", "Skipped (not a PEL):", "silent"),
    ("neg-skip-reserved", "C01", P + "user_header.py", "        self.reserved4Byte1 = self.stream.get_int(4)", "        self.stream.inc_index(4)", "silent"),
    ("neg-pretty-width-list", "C08", P + "peltool.py", "ALL:desiredSpace = 29", "desiredSpace = 31", "silent"),
    ("neg-mru-list", "C03", P + "src.py", "                json[\"MRU Id\"] = mruId[:-1]", "                json[\"MRU Id\"] = mruId[:-1].split(\",\") if mruId else \"\"", "silent"),
]

# edits that need a second site
EXTRA = {
    "c05-both-assert": ("modules/pel/datastream.py", "        if not self.check_range(num_bytes):\n            raise AssertionError(\"range check failure\")\n        o_mv =", "        assert self.check_range(num_bytes), \"range check failure\"\n        o_mv ="),
    "c19-hexdata-class": (P + "src.py", "class SRC:\n    \"\"\"", "class SRC:\n    hexData = []\n    \"\"\""),
    "c19-targets-class": (P + "imp_partition.py", "class ImpactedPartition:\n    \"\"\"", "class ImpactedPartition:\n    targetLPs = []\n    \"\"\""),
}


def apply(root, path, old, new):
    fp = os.path.join(root, path)
    s = open(fp).read()
    count = 1
    if old.startswith("ALL:"):
        old, count = old[4:], -1
    if old not in s:
        return False
    open(fp, "w").write(s.replace(old, new, count))
    return True


def main():
    sel = sys.argv[1:]
    results = []
    for name, prop, path, old, new, expect in M:
        if sel and not any(x in name for x in sel):
            continue
        root = tempfile.mkdtemp(prefix="hm-")
        try:
            shutil.copytree(os.path.join(REPO, "modules"), os.path.join(root, "modules"), ignore=shutil.ignore_patterns("__pycache__", "*.egg-info"))
            shutil.copytree(os.path.join(REPO, "test"), os.path.join(root, "test"), ignore=shutil.ignore_patterns("__pycache__"))
            ok = apply(root, path, old, new)
            if ok and name in EXTRA:
                ok = apply(root, *EXTRA[name])
            if not ok:
                results.append((name, prop, "EDIT-DOES-NOT-APPLY", expect))
                print(results[-1], flush=True)
                continue
            t = subprocess.run(["/venv/bin/python", "-m", "pytest", "-q", "-p", "no:cacheprovider", "-x"], cwd=root,
                               env=dict(os.environ, PYTHONPATH=os.path.join(root, "modules")), stdout=subprocess.PIPE, stderr=subprocess.STDOUT)
            tests_ok = t.returncode == 0
            c = subprocess.run(["/venv/bin/python", os.path.join(VERIF, "vf", "run.py"), prop, "--tier", "quick"], cwd=VERIF,
                               env=dict(os.environ, VERIF_REPO=root), stdout=subprocess.PIPE, stderr=subprocess.STDOUT)
            out = c.stdout.decode("utf-8", "replace")
            keys = sorted({ln.split("key=")[1].split(" ")[0] for ln in out.split("\n") if "key=" in ln})
            verdict = {0: "silent", 1: "caught", 2: "inconclusive"}.get(c.returncode, "rc%d" % c.returncode)
            flag = "" if (verdict == expect or not tests_ok) else "   <<<<<< UNEXPECTED"
            results.append((name, prop, verdict, expect, "tests-pass" if tests_ok else "TESTS-FAIL(not a valid change)", keys[:4]))
            print(results[-1], flag, flush=True)
        finally:
            shutil.rmtree(root, ignore_errors=True)
    bad = [r for r in results if len(r) > 4 and r[2] != r[3] and r[4] == "tests-pass"]
    print("\n%d changes, %d unexpected" % (len(results), len(bad)))
    for r in bad:
        print("  ", r)


if __name__ == "__main__":
    main()
