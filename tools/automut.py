#!/venv/bin/python
"""Automatic single-point mutation sweep over /repo/modules: measures which small edits the monitors notice.

   /venv/bin/python tools/automut.py list                       -> number of mutants per file
   /venv/bin/python tools/automut.py run [--per-file N] [--files substr,...] [--workers 4] [--out .scratch/automut.jsonl]

For each sampled mutant: copy modules+test to a scratch directory outside /repo and /verif, apply the edit, byte-compile,
run the repository's tests (a mutant they reject is 'tests'), then run the quick checks of the properties anchored in the
mutated file against the copy (VERIF_REPO, VERIF_FAILFAST=1).  Result per mutant: tests / caught:<prop> / survived /
inconclusive.  Survivors are printed for manual review (equivalent mutant, outside every property, or a gap to close).
Nothing is written into /repo; the scratch copies are removed after each mutant.
"""
import argparse
import ast
import concurrent.futures as cf
import json
import os
import random
import shutil
import subprocess
import sys
import tempfile

REPO = "/repo"
VERIF = os.path.dirname(os.path.dirname(os.path.abspath(__file__)))
PT = "modules/pel/peltool/"

PROPS = {
    PT + "peltool.py": ["C08", "C09", "C10", "C01", "C06", "C07", "C11", "C12", "C18", "C05", "C13", "C04", "C02"],
    PT + "private_header.py": ["C02", "C01", "C05", "C10"],
    PT + "user_header.py": ["C02", "C01", "C07", "C05"],
    PT + "extend_user_header.py": ["C02", "C01", "C05"],
    PT + "failing_mtms.py": ["C02", "C01", "C05"],
    PT + "imp_partition.py": ["C02", "C01", "C05"],
    PT + "comp_id.py": ["C02", "C19", "C20"],
    PT + "pel_values.py": ["C02", "C03", "C07"],
    PT + "pel_types.py": ["C07", "C02", "C03", "C04"],
    PT + "src.py": ["C03", "C01", "C18", "C20", "C05", "C19"],
    PT + "registry.py": ["C03", "C19"],
    PT + "user_data.py": ["C04", "C01", "C18", "C05"],
    PT + "ext_user_data.py": ["C04", "C01", "C18", "C05"],
    PT + "parse_user_data.py": ["C04", "C18", "C03", "C01", "C19", "C05"],
    PT + "default.py": ["C04", "C01", "C05"],
    PT + "config.py": ["C07", "C10", "C08", "C18"],
    "modules/pel/datastream.py": ["C05", "C01", "C02"],
    "modules/pel/hexdump.py": ["C13", "C04", "C16", "C17"],
    "modules/pel/hwdiags/parserdata.py": ["C20"],
    "modules/io_drawer/ilog.py": ["C14", "C17", "C19"],
    "modules/io_drawer/trace.py": ["C15", "C17", "C19"],
    "modules/io_drawer/hlog.py": ["C16", "C18"],
    "modules/io_drawer/dump.py": ["C17", "C13"],
    "modules/io_drawer/utils.py": ["C14", "C15", "C17"],
    "modules/io_drawer/drawer_type.py": ["C14", "C15", "C17", "C18"],
    "modules/udparsers/m2c00/m2c00.py": ["C18", "C16", "C17", "C19"],
    "modules/udparsers/oe500/oe500.py": ["C20", "C18"],
    "modules/srcparsers/oe500/oe500.py": ["C20", "C18"],
    "modules/srcparsers/osrc/osrc.py": ["C18", "C03"],
    "modules/calloutparsers/ocallouts/ocallouts.py": ["C18", "C03"],
}

CMP = {ast.Lt: "<=", ast.LtE: "<", ast.Gt: ">=", ast.GtE: ">", ast.Eq: "!=", ast.NotEq: "=="}
CMPTXT = {ast.Lt: "<", ast.LtE: "<=", ast.Gt: ">", ast.GtE: ">=", ast.Eq: "==", ast.NotEq: "!="}
BIN = {ast.Add: ("+", "-"), ast.Sub: ("-", "+"), ast.Mult: ("*", "+"), ast.FloorDiv: ("//", "*"), ast.Mod: ("%", "//"),
       ast.LShift: ("<<", ">>"), ast.RShift: (">>", "<<"), ast.BitAnd: ("&", "|"), ast.BitOr: ("|", "&")}


def offsets(src):
    starts, pos = [0], 0
    for line in src.split("\n"):
        pos += len(line.encode()) + 1
        starts.append(pos)
    return starts


def gen_mutants(path, src):
    """list of (kind, lineno, start, end, replacement) on the utf-8 encoded source."""
    b = src.encode()
    st = offsets(src)
    tree = ast.parse(src)

    def pos(node, end=False):
        return st[(node.end_lineno if end else node.lineno) - 1] + (node.end_col_offset if end else node.col_offset)

    out = []

    def between(a, c, old, new, kind, line):
        lo, hi = pos(a, True), pos(c)
        seg = b[lo:hi].decode()
        i = seg.find(old)
        if i < 0 or seg.count(old) != 1:
            return
        out.append((kind, line, lo + i, lo + i + len(old), new))

    docstrings = set()
    for n in ast.walk(tree):
        if isinstance(n, (ast.Module, ast.FunctionDef, ast.ClassDef)) and n.body and isinstance(n.body[0], ast.Expr) and \
                isinstance(getattr(n.body[0], "value", None), ast.Constant) and isinstance(n.body[0].value.value, str):
            docstrings.add(id(n.body[0]))
    for n in ast.walk(tree):
        if isinstance(n, ast.Compare) and len(n.ops) == 1:
            t = type(n.ops[0])
            if t in CMP:
                between(n.left, n.comparators[0], CMPTXT[t], CMP[t], "cmp", n.lineno)
            elif t is ast.In:
                between(n.left, n.comparators[0], "in", "not in", "cmp", n.lineno)
            elif t is ast.NotIn:
                between(n.left, n.comparators[0], "not in", "in", "cmp", n.lineno)
        elif isinstance(n, ast.BinOp) and type(n.op) in BIN:
            if isinstance(n.op, ast.Mod) and isinstance(n.left, ast.Constant) and isinstance(n.left.value, str):
                continue                                   # string formatting
            old, new = BIN[type(n.op)]
            between(n.left, n.right, old, new, "binop", n.lineno)
        elif isinstance(n, ast.BoolOp):
            old, new = ("and", "or") if isinstance(n.op, ast.And) else ("or", "and")
            between(n.values[0], n.values[1], old, new, "boolop", n.lineno)
        elif isinstance(n, ast.UnaryOp) and isinstance(n.op, ast.Not):
            lo = pos(n)
            if b[lo:lo + 4] == b"not ":
                out.append(("not", n.lineno, lo, lo + 4, ""))
        elif isinstance(n, ast.Constant) and isinstance(n.value, int) and not isinstance(n.value, bool):
            lo, hi = pos(n), pos(n, True)
            txt = b[lo:hi].decode()
            v = n.value
            if txt.lower().startswith("0x"):
                out.append(("const", n.lineno, lo, hi, "0x%X" % (v + 1)))
                if v & (v - 1) == 0 and v > 1:           # single-bit mask: neighbour bit
                    out.append(("const", n.lineno, lo, hi, "0x%X" % (v >> 1)))
            else:
                out.append(("const", n.lineno, lo, hi, str(v + 1)))
                if v > 0:
                    out.append(("const", n.lineno, lo, hi, str(v - 1)))
        elif isinstance(n, ast.Constant) and isinstance(n.value, bool):
            lo, hi = pos(n), pos(n, True)
            out.append(("bool", n.lineno, lo, hi, "False" if n.value else "True"))
        elif isinstance(n, (ast.Expr, ast.Assign, ast.AugAssign)) and id(n) not in docstrings:
            if isinstance(n, ast.Expr) and not isinstance(n.value, ast.Call):
                continue
            lo, hi = pos(n), pos(n, True)
            if b"\n" in b[lo:hi] and isinstance(n, ast.Assign) and isinstance(n.value, (ast.Dict, ast.List)):
                continue                                   # tables
            out.append(("delstmt", n.lineno, lo, hi, "pass"))
        elif isinstance(n, ast.If):
            lo, hi = pos(n.test), pos(n.test, True)
            out.append(("ifneg", n.lineno, lo, hi, "not (" + b[lo:hi].decode() + ")"))
        elif isinstance(n, ast.Return) and n.value is not None and not isinstance(n.value, ast.Constant):
            pass
        elif isinstance(n, (ast.Break, ast.Continue)):
            lo, hi = pos(n), pos(n, True)
            out.append(("loopctl", n.lineno, lo, hi, "pass"))
    # dedupe
    seen, res = set(), []
    for m in out:
        if m not in seen:
            seen.add(m)
            res.append(m)
    return res


def all_mutants():
    ms = {}
    for rel in sorted(PROPS):
        p = os.path.join(REPO, rel)
        src = open(p, encoding="utf-8").read()
        ms[rel] = (src, gen_mutants(rel, src))
    return ms


def apply(src, m):
    b = src.encode()
    return (b[:m[2]] + m[4].encode() + b[m[3]:]).decode()


def run_one(job):
    rel, src, m, idx, jobs = job
    new = apply(src, m)
    line = src.split("\n")[m[1] - 1].strip()
    newline = new.split("\n")[m[1] - 1].strip()
    rec = {"file": rel, "idx": idx, "kind": m[0], "line": m[1], "old": line[:160], "new": newline[:160]}
    try:
        compile(new, rel, "exec")
    except SyntaxError:
        rec["result"] = "syntax"
        return rec
    d = tempfile.mkdtemp(prefix="automut-", dir="/tmp")
    try:
        shutil.copytree(os.path.join(REPO, "modules"), os.path.join(d, "modules"), ignore=shutil.ignore_patterns("__pycache__", "*.egg-info"))
        shutil.copytree(os.path.join(REPO, "test"), os.path.join(d, "test"), ignore=shutil.ignore_patterns("__pycache__"))
        for f in ("setup.py", "pytest.ini", "setup.cfg", "pyproject.toml", "tox.ini"):
            if os.path.exists(os.path.join(REPO, f)):
                shutil.copy(os.path.join(REPO, f), d)
        with open(os.path.join(d, rel), "w", encoding="utf-8") as f:
            f.write(new)
        e = dict(os.environ, PYTHONPATH=os.path.join(d, "modules"), PYTHONDONTWRITEBYTECODE="1")
        try:
            t = subprocess.run(["/venv/bin/python", "-m", "pytest", "-q", "-x", "-p", "no:cacheprovider"], cwd=d, env=e,
                               stdout=subprocess.PIPE, stderr=subprocess.STDOUT, timeout=600)
            if t.returncode != 0:
                rec["result"] = "tests"
                return rec
        except subprocess.TimeoutExpired:
            rec["result"] = "tests-timeout"
            return rec
        e2 = dict(os.environ, VERIF_REPO=d, VERIF_FAILFAST="1", VERIF_JOBS=str(jobs))
        e2.pop("PYTHONPATH", None)
        rec["checks"] = {}
        for prop in PROPS[rel]:
            try:
                c = subprocess.run(["/venv/bin/python", "vf/run.py", prop, "--tier", "quick"], cwd=VERIF, env=e2,
                                   stdout=subprocess.PIPE, stderr=subprocess.STDOUT, timeout=3600)
                rc, out = c.returncode, c.stdout.decode("utf-8", "replace")
            except subprocess.TimeoutExpired:
                rc, out = 2, "timeout"
            rec["checks"][prop] = rc
            if rc == 1:
                keys = [ln.split("key=")[1].split()[0] for ln in out.splitlines() if "key=" in ln][:2]
                rec["result"] = "caught:" + prop
                rec["keys"] = keys
                return rec
            if rc == 2:
                rec.setdefault("inconclusive", []).append((prop, out[-600:]))
        rec["result"] = "inconclusive" if rec.get("inconclusive") else "survived"
        return rec
    finally:
        shutil.rmtree(d, ignore_errors=True)


def main():
    ap = argparse.ArgumentParser()
    ap.add_argument("cmd", choices=["list", "run"])
    ap.add_argument("--per-file", type=int, default=15)
    ap.add_argument("--files", default="")
    ap.add_argument("--workers", type=int, default=4)
    ap.add_argument("--jobs", type=int, default=4)
    ap.add_argument("--seed", type=int, default=0)
    ap.add_argument("--out", default=os.path.join(VERIF, ".scratch", "automut.jsonl"))
    a = ap.parse_args()
    ms = all_mutants()
    if a.cmd == "list":
        tot = 0
        for rel, (src, lst) in ms.items():
            kinds = {}
            for m in lst:
                kinds[m[0]] = kinds.get(m[0], 0) + 1
            print("%5d %s %s" % (len(lst), rel, kinds))
            tot += len(lst)
        print(tot, "mutants")
        return
    done = set()
    if os.path.exists(a.out):
        for ln in open(a.out):
            r = json.loads(ln)
            done.add((r["file"], r["idx"]))
    rng = random.Random(a.seed)
    jobs = []
    for rel, (src, lst) in ms.items():
        if a.files and not any(x in rel for x in a.files.split(",")):
            continue
        idxs = list(range(len(lst)))
        rng.shuffle(idxs)
        for i in idxs[:a.per_file]:
            if (rel, i) not in done:
                jobs.append((rel, src, lst[i], i, a.jobs))
    print(len(jobs), "mutants to run", flush=True)
    os.makedirs(os.path.dirname(a.out), exist_ok=True)
    with cf.ThreadPoolExecutor(max_workers=a.workers) as ex, open(a.out, "a") as f:
        for rec in ex.map(run_one, jobs):
            f.write(json.dumps(rec) + "\n")
            f.flush()
            print("%-14s %s:%d [%s] %s  ->  %s" % (rec["result"], rec["file"].split("/")[-1], rec["line"], rec["kind"],
                                                 rec["old"][:70], rec["new"][:70]), flush=True)


if __name__ == "__main__":
    main()
