#!/usr/bin/env python3
"""Regenerates DESIGN.md section 8.4 from seeded/*/meta.json."""
import glob
import json
import os

ROOT = os.path.dirname(os.path.dirname(os.path.abspath(__file__)))
rows = []
for d in sorted(glob.glob(os.path.join(ROOT, "seeded", "*", "meta.json"))):
    m = json.load(open(d))
    rows.append((m["seed"], m["breaks_property"], m["change"], m["needs_to_manifest"], m["detected_by"]["violation_keys"], m.get("history")))
missed = [r for r in rows if r[5]]
out = ["### 8.4 Seeded changes (written by independent sub-agents; `seeded/<id>/`)",
       "",
       "Each sub-agent received only the text of one property and its own scratch worktree of /repo (nothing from /verif), and",
       "returned a change that still passes the 55 repository tests plus a demonstration script.  Every change was confirmed",
       "with `tools/seedcheck.sh` (demo PASS on the unmodified tree, tests pass with the change, demo FAIL with the change) and",
       "then the property's quick check was run against the changed worktree (`VERIF_REPO=<worktree>`).  Seventeen rounds (a: free",
       "choice, b: a named focus area per property, c: \"not the obvious place\", d: disguised as a performance / clean-up",
       "commit, e: needs an exact coincidence a random generator would not produce, f: in a rarely executed branch or environment-dependent path, g: an interaction of two options, sections, calls or argument types, h: a well-meant normalisation or leniency, i: at a limit or in a numeric / positional detail, j: the fallback / negative clause of the property, k: a shared helper or table changed for the worse of one caller, l: order and completeness of effects, m: a small feature or compatibility shim added next to the property's code, n: a Python semantics subtlety, o: indirectly, from a helper / data file / argument definition that a reviewer of the property would not look at, p: two cooperating edits in different functions or files that are each behaviour-preserving alone, q: visible only after a multi-step sequence, under an operating-system fault at a particular point, or exactly where two pieces of code hand over), %d changes: %d were reported by the check as it" % (len(rows), len(rows) - len(missed)),
       "stood at the time, %d were missed and led to the strengthening noted per seed in `meta.json` (`history`); after that all" % len(missed),
       "%d but three (C10-k, C18-n, C20-n: not pursued, their triggers lie outside the input domain - reasons in their `meta.json`) are" % len(rows),
       "reported by the quick tier at workload seeds 0 and 5 (`tools/reseed.sh` re-applies every patch to a fresh worktree and re-checks).",
       "",
       "| seed | change | needs | reported as | first run |",
       "|---|---|---|---|---|"]
for s, p, c, n, k, h in rows:
    out.append("| %s | %s | %s | `%s` | %s |" % (s, c.replace("|", "/"), n.replace("|", "/"), k.replace("|", "/")[:90],
                                             ("not pursued (outside the input domain, see meta.json)" if "NOT PURSUED" in h else
                                              "**missed, then strengthened**") if h else "caught"))
out += ["",
        "What the misses taught (all were workload / observability gaps, none needed a cleverer oracle):",
        "* run the CLI the way a user does: default stdout buffering (the sandbox exports `PYTHONUNBUFFERED=1`), several output",
        "  encodings, `--hex --clean`, `-P` combined with *every* mode, and - for relations between modes - one fresh process per",
        "  invocation (module-level caches make in-process runs agree with each other while both are wrong);",
        "* generate *collisions and repetitions on purpose*: repeated MRU ids, register ids shared by chips of different models,",
        "  ids equal to 0 or with leading zeros, the same component id under several creators, the same reason code under several",
        "  SRC types, the same hash under both drawer types, a severity group named twice, a buffer header occurring twice, the",
        "  same file path rewritten with another table;",
        "* cover the wrapper paths too (history log through the I/O-drawer plugin, not only `parse_hlog_data`), place the primary",
        "  SRC elsewhere than third, render BMC-format dumps beyond 64 KiB;",
        "* *state outside the process counts as input*: output paths that already exist (same-size stale files, longer previous",
        "  exports), files rewritten with the same size and time stamp, sub-directories named like PEL files, the caller's buffer",
        "  being a window onto a larger one, directories and look-up ids that occur inside directory names;",
        "* text is not ASCII: UTF-8 multi-byte characters in fixed-width fields, non-UTF-8 file names, all Unicode line",
        "  separators inside header files, keys of user JSON that collide with the tool's own keys;",
        "* hangs inside one library call (regex backtracking) produce no trace events: a generous wall-clock alarm is the only",
        "  observer, and inputs that fail *inside* a library layer (RecursionError, ModuleNotFoundError) are junk classes too;",
        "* *interactions*: a command line is more than its mode - options of lower precedence, `--clean`/`--output-dir` on a",
        "  display mode, `-x` on a look-up, `-e` with directories, a group named twice; an API is more than its usual caller -",
        "  a stream whose cursor is not at 0, a `Config` reused after a failed call, lines as a generator, paths as",
        "  `pathlib.Path`/`bytes`, views released by a plug-in, the interpreter run with `-O`;",
        "* *values that invite tidying*: unset / all-nines time stamps, text that Unicode normalisation would rewrite, blanks at",
        "  the edges and doubled inside strings, payloads that look like padding, empty descriptions, names with comment",
        "  markers, rows that repeat, duplicate list items, exceptions without a message - all of it is data to be shown as stored;",
        "* *limits on purpose*: 128+ and 255 sections, sections beyond 32 KiB, callout subsections beyond 4096 words, files beyond",
        "  16 KiB and 64 KiB, documents of exactly n x 64 KiB, 32-character reference codes, hashes beyond 32 bits, the values",
        "  0 / 0xFFFFFFFF first in a log, catch-all patterns - sizes a random generator reaches once in 2^16 tries or never;",
        "* a relational check (output with junk = output without) is blind to state that BOTH of its runs inherit: evaluate the",
        "  two sides in processes of their own, and let the junk be a *sibling* of the good input (same component, other routing);",
        "* an exception escaping the decoder under test is a violation to report, never a crashed shard;",
        "* do not accept two readings where the code base has one (declared trace-buffer size inside an entry);",
        "* *the property's functions are not where it breaks*: ten of the twenty 'indirect' changes of round o were missed at",
        "  first - each check drove its own decoder and nothing around it.  What closed the gap was running the same content the",
        "  way it reaches a user: the section inside a PEL through `peltool` in a real process (`vf/iocli.py`), files that are",
        "  links, paths that are relative and oddly named, the C locale, several invocations in one process, a look-alike",
        "  neighbour as the first thing a process sees, a section without payload;",
        "* *features are keyed by names and constants*: a convenience added next to the decoder triggers on a directory called",
        "  `logs`, a file name with `[`, a `#define`, a `<pre>` tag, a `%%t`, an earlier output of the same log, one of four model",
        "  words.  Name things the way the domain does, leave earlier results lying around, and take the dictionary from the",
        "  target itself: `harness.harvest_constants` walks the loaded modules of the code under test (attributes, containers,",
        "  literals compiled into functions) and hands the constants of the right shape back to the generator (C20 model words,",
        "  C17 decoy buffer names) - a special case for a particular value cannot be written without the value being there.",
        "* *two edits that are each right* (round p) are caught where their product becomes visible, not where either edit is:",
        "  17 of 20 such changes fell to the existing workloads because those already vary what a refactoring silently assumes",
        "  (alignment of a section's start, the second section of a kind in a process, empty descriptions, a header at offset",
        "  0, lower-case dumps, subtype != version).  The three misses were values at the *end of a range* that no draw had",
        "  produced - entry id 0x00000000, a header-length byte other than 0x20, a wildcard-only PTE ahead of the specific ones;",
        "* *faults have shapes* (round q): a write that fails is not a write that is cut short - strace can inject the first,",
        "  only the kernel produces the second truthfully (`RLIMIT_FSIZE`); an import can fail for reasons outside the module",
        "  (a failpoint on `sys.meta_path`, restricted to plug-in packages, leaves everything else untouched); a path handed to",
        "  the tool is a path, not a pattern (directory names with `[ ] ? * { }` next to siblings the pattern would match);",
        "  buffers have sizes (an exclude file whose entries lie across multiples of 64 KiB); a count can be zero;",
        "* *order of calls is an input*: settings used before (hexdump layouts), dump formats seen before, argument data that",
        "  did not fit a format before - each shard now draws the order of its cases instead of enumerating them in a fixed one,",
        "  and the case with the strongest oracle (default layout, parse-back) is repeated after every other case.",
        "",
        "`tools/handmut.py` additionally applies ~95 hand-written single-edit changes (the *Sensitivity* lists of section 4) and",
        "behaviour-preserving refactors as negative controls (renaming `prettyPrint`/`considerPEL`, inlining `parseHeader`,",
        "`get_int` without `get_mem`, skipping reserved fields with `inc_index`, zero-padded ids, `Target LP`/`MRU Id` as lists,",
        "other diagnostic wordings, DEL shown in the dump's text column, blanks between key and colon): every property-breaking",
        "edit that keeps the repository tests green is reported, every behaviour-preserving edit leaves the checks silent.",
        ""]
p = os.path.join(ROOT, "DESIGN.md")
s = open(p).read()
if "### 8.4 Seeded changes" in s:
    s = s[:s.index("### 8.4 Seeded changes")]
open(p, "w").write(s.rstrip("\n") + "\n\n" + "\n".join(out))
print(len(rows), "seeds,", len(missed), "initially missed")
