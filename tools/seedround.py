#!/usr/bin/env python3
"""tools/seedround.py <suffix> <hint-file> : prepare a round of seeded changes.

Creates one scratch worktree of /repo per property under /tmp/mut/<id><suffix> and writes the sub-agent prompt
/tmp/mut/<id><suffix>.prompt (property text only + tools/seedprompt.tmpl + the round's hint).  The hint file holds
either one generic hint (plain text) or JSON {"C01": "...", ...}.  Nothing from /verif reaches the sub-agents.
After the agents finish: tools/seedbatch.sh <suffix>, write seeded/<id>-<suffix>/meta.json, remove the worktrees."""
import json
import os
import subprocess
import sys

ROOT = os.path.dirname(os.path.dirname(os.path.abspath(__file__)))
suffix, hintfile = sys.argv[1], sys.argv[2]
ids = sys.argv[3:]
raw = open(hintfile).read()
try:
    hints = json.loads(raw)
except ValueError:
    hints = None
tmpl = open(os.path.join(ROOT, "tools", "seedprompt.tmpl")).read()
os.makedirs("/tmp/mut", exist_ok=True)
for line in open(os.path.join(ROOT, "properties.jsonl")):
    p = json.loads(line)
    if ids and p["id"] not in ids:
        continue
    d = "/tmp/mut/%s%s" % (p["id"], suffix)
    if not os.path.exists(d):
        subprocess.run(["git", "-C", "/repo", "worktree", "add", "-q", "--detach", d, "HEAD"], check=True)
    text = "Property %s: %s\n\n%s\n\nQuantified over: %s\n" % (p["id"], p["title"], p["statement"], p["quantifier"]["text"])
    hint = hints.get(p["id"], hints.get("*", "")) if hints is not None else raw.strip()
    open(d + ".prompt", "w").write(tmpl.replace("__DIR__", d).replace("__PROP__", text).replace("__HINT__", hint))
    print(d)
