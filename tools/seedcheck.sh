#!/bin/bash
# tools/seedcheck.sh <worktree> <seed-name> <property> [other properties to run...]
# Confirms a seeded change (patch.diff + demo.py in <worktree>): demo PASS without / FAIL with, repo tests pass with it,
# then runs the named checks against the changed tree (VERIF_REPO) and stores the artefacts under seeded/<seed-name>/.
set -u
W=$1; NAME=$2; shift 2
cd "$W" || exit 2
git add -N modules 2>/dev/null; git diff -- modules > /tmp/seed_$NAME.diff; git reset -q
[ -s /tmp/seed_$NAME.diff ] || cp patch.diff /tmp/seed_$NAME.diff
git checkout -q -- modules; git clean -fdq modules
echo "--- demo on unmodified tree"; PYTHONPATH=$W/modules timeout 300 /venv/bin/python demo.py > /tmp/seed_$NAME.demo0 2>&1; D0=$?; tail -2 /tmp/seed_$NAME.demo0; echo "exit=$D0"
git apply /tmp/seed_$NAME.diff || { echo "PATCH DOES NOT APPLY"; exit 2; }
echo "--- tests with change"; PYTHONPATH=$W/modules /venv/bin/python -m pytest -q -p no:cacheprovider 2>&1 | tail -1
echo "--- demo with change"; PYTHONPATH=$W/modules timeout 300 /venv/bin/python demo.py > /tmp/seed_$NAME.demo1 2>&1; D1=$?; tail -2 /tmp/seed_$NAME.demo1; echo "exit=$D1"
cd /verif
mkdir -p seeded/$NAME
cp /tmp/seed_$NAME.diff seeded/$NAME/patch.diff; cp $W/demo.py seeded/$NAME/demo.py
for P in "$@"; do
  echo "--- check $P (quick) against the changed tree"
  VERIF_REPO=$W /venv/bin/python vf/run.py $P --tier quick 2>&1 | cut -c1-400 | head -8
done
