"""strace driver: syscall event log of a peltool run, optional fault / crash
injection, and the parser used by the offline trace checker."""
import os
import re
import shutil
import subprocess

from vf import env

TRACE = "openat,open,creat,write,writev,pwrite64,close,unlink,unlinkat,rename,renameat,renameat2,truncate,ftruncate"
LINE = re.compile(r"^(\d+)\s+(\w+)\((.*)\)\s+=\s+(-?\d+|\?)(.*)$")
FDPATH = re.compile(r"^(\d+)<([^>]*)>")


def available():
    return shutil.which("strace") is not None


class Event:
    __slots__ = ("n", "pid", "name", "args", "ret", "rest", "injected", "fd", "path", "ordinal")

    def __repr__(self):
        return "%s(%s)=%s%s" % (self.name, (self.path or self.args)[:70], self.ret, " INJECTED" if self.injected else "")


def parse(log_text):
    events, killed, exit_code = [], None, None
    ordinals = {}
    for raw in log_text.split("\n"):
        m = LINE.match(raw)
        if not m:
            k = re.search(r"\+\+\+ killed by (\w+)", raw)
            if k:
                killed = k.group(1)
            x = re.search(r"\+\+\+ exited with (\d+)", raw)
            if x:
                exit_code = int(x.group(1))
            continue
        e = Event()
        e.n = len(events)
        e.pid, e.name, e.args = int(m.group(1)), m.group(2), m.group(3)
        e.ret = None if m.group(4) == "?" else int(m.group(4))
        e.rest = m.group(5)
        e.injected = "(INJECTED)" in e.rest
        e.fd, e.path = None, None
        ordinals[e.name] = ordinals.get(e.name, 0) + 1
        e.ordinal = ordinals[e.name]
        f = FDPATH.match(e.args)
        if f:
            e.fd, e.path = int(f.group(1)), f.group(2)
        if e.name in ("openat", "open", "creat", "unlink", "unlinkat", "rename", "renameat", "renameat2", "truncate"):
            q = re.findall(r'"((?:[^"\\]|\\.)*)"', e.args)
            if q:
                e.path = q[0] if e.name not in ("rename", "renameat", "renameat2") else "|".join(q[:2])
            r = FDPATH.match(e.rest.strip().lstrip("= ")) if False else re.match(r"^<([^>]*)>", e.rest)
            if e.name in ("openat", "open", "creat") and e.ret is not None and e.ret >= 0:
                e.fd = e.ret
        events.append(e)
    return events, killed, exit_code


def run(argv, log_path, inject=None, stdout=None, stdin=None, plugins=False, registry=True, timeout=120, cwd=None):
    """peltool under strace.  inject: e.g. 'write:error=ENOSPC:when=7' or 'write:signal=KILL:when=7'.
    Returns (CompletedProcess|None, events, killed, exit_code)."""
    cmd = ["strace", "-f", "-y", "-s", "0", "-e", "trace=" + TRACE, "-o", log_path]
    if inject:
        cmd += ["-e", "inject=" + inject]
    cmd += [env.PY, "-X", "faulthandler"]
    cmd += [os.path.join(env.VERIF, "vf", "peltool_boot.py")] if plugins else [env.PELTOOL]
    cmd += list(argv)
    e = env.child_env(registry=registry, extra={"PYTHONDONTWRITEBYTECODE": "1"})
    try:
        p = subprocess.run(cmd, env=e, stdin=stdin if stdin is not None else subprocess.DEVNULL,
                           stdout=stdout if stdout is not None else subprocess.PIPE, stderr=subprocess.PIPE,
                           timeout=timeout, cwd=cwd)
    except subprocess.TimeoutExpired:
        return None, [], None, None
    try:
        with open(log_path, errors="replace") as f:
            txt = f.read()
    except OSError:
        txt = ""
    ev, killed, code = parse(txt)
    return p, ev, killed, code
