"""Hostile inputs derived from well-formed PELs: prefixes, byte corruptions,
field-aware edits, random strings."""
from vf import pelmodel as pm

CORRUPT_VALUES = ("x01", "x80", "xFF", "=00", "=FF", "rnd")


def prefixes(data: bytes, step=1):
    for n in range(0, len(data), step):
        yield ("prefix", n), data[:n]


def corruptions(data: bytes, rng, step=1, start=0):
    for i in range(start, len(data), step):
        b = data[i]
        for tag, v in (("x01", b ^ 0x01), ("x80", b ^ 0x80), ("xFF", b ^ 0xFF), ("=00", 0), ("=FF", 0xFF),
                       ("rnd", rng.randrange(256))):
            if v == b:
                continue
            yield ("corrupt", i, tag), data[:i] + bytes([v]) + data[i + 1:]


def field_edits(pel: "pm.Pel", rng):
    """Structure-aware hostile edits; yields (tag, bytes)."""
    data = pel.encode()
    offs = pel.offsets()
    secs = pel.all_sections()
    # section count
    for c in (0, 1, 2, 3, len(secs) - 1, len(secs) + 1, 255):
        yield ("count", c), pel.encode(count=c)
    for k, ((off, ln), sec) in enumerate(zip(offs, secs)):
        for newlen in (0, 1, 7, 8, 9, ln - 4, ln - 1, ln + 1, ln + 4, 0xFFFF):
            if newlen < 0:
                continue
            d = bytearray(data)
            d[off + 2:off + 4] = pm.u16(newlen)
            yield ("seclen", sec.kind, newlen - ln), bytes(d)
        # swap ids with the next section
        if k + 1 < len(secs):
            d = bytearray(data)
            o2 = offs[k + 1][0]
            d[off:off + 2], d[o2:o2 + 2] = d[o2:o2 + 2], d[off:off + 2]
            yield ("swapid", sec.kind), bytes(d)
        if sec.kind == "SRC":
            b = off + 8
            for wc in (0, 10, 11, 255):
                d = bytearray(data)
                d[b + 3] = wc
                yield ("wordcount", wc), bytes(d)
            if sec.m["has_sub"]:
                sub = b + 72
                for wl in (0, 1, 2, 0x7FFF, 0xFFFF):
                    d = bytearray(data)
                    d[sub + 2:sub + 4] = pm.u16(wl)
                    yield ("calloutlen", wl), bytes(d)
                pos = sub + 4
                for c in sec.m["callouts"]:
                    enc = c.encode()
                    for v in (0, 1, 3, 4, 0x49, 0xFF):
                        d = bytearray(data)
                        d[pos] = v
                        yield ("calloutsize", v), bytes(d)
                    for v in (0, 1, 81, 255):
                        d = bytearray(data)
                        d[pos + 3] = v
                        yield ("locsize", v), bytes(d)
                    # substructure size / count fields
                    p = pos + 4 + enc[3]
                    while p < pos + len(enc):
                        typ = bytes(data[p:p + 2])
                        for v in (0, 3, 4, 23, 24, 255):
                            d = bytearray(data)
                            d[p + 2] = v
                            yield ("subsize", typ.decode("latin-1"), v), bytes(d)
                        if typ == b"MR":
                            d = bytearray(data)
                            d[p + 3] |= 0x0F
                            yield ("mrucount", 15), bytes(d)
                        d = bytearray(data)
                        d[p + 3] = 0xFF
                        yield ("subflags", typ.decode("latin-1")), bytes(d)
                        p += data[p + 2] if data[p + 2] else 4
                    pos += len(enc)
        if sec.kind == "LP":
            b = off + 8
            for f, vals in ((2, (1, 255)), (3, (1, 254, 255))):
                for v in vals:
                    d = bytearray(data)
                    d[b + f] = v
                    yield ("lpfield", f, v), bytes(d)
        if sec.kind == "EH":
            b = off + 8
            for v in (1, 255):
                d = bytearray(data)
                d[b + 67] = v
                yield ("symsize", v), bytes(d)
        if sec.kind in ("EH", "MT", "SRC", "UD", "ED", "PH"):
            # invalid UTF-8 in the first text-ish bytes of the section body
            for at in (8, 16, 24, 40, 48):
                if off + at < off + ln:
                    d = bytearray(data)
                    d[off + at] = rng.choice([0x80, 0xC3, 0xFF, 0xED])
                    yield ("badutf8", sec.kind, at), bytes(d)


def random_strings(rng, count, maxlen=64):
    for n in range(0, maxlen + 1):
        yield ("random", n), bytes(rng.randrange(256) for _ in range(n))
    for _ in range(count):
        r = rng.random()
        n = rng.randrange(0, 200) if r < 0.85 else rng.choice([1000, 5000, 5000, 70000])
        b = bytearray(rng.randrange(256) for _ in range(n))
        if rng.random() < 0.7 and n >= 4:
            b[0:2] = b"PH"
            if rng.random() < 0.7 and n >= 52:
                b[2:4] = b"\0\x30"
                b[48:50] = b"UH"
        yield ("random", n), bytes(b)


def hostile_json_ud(rng, u):
    """BMC JSON user data that is hostile to the JSON layer."""
    from vf import gen
    docs = [b"[" * 50000 + b"]" * 50000, b"{\"a\":" * 20000 + b"1" + b"}" * 20000, b"1" * 5000, b"-" + b"9" * 4400,
            b"{\"a\": NaN}", b"{\"a\": Infinity, \"b\": -Infinity}", b"1e999", b"\"\\ud800\"", b"{\"k\": \"\\udc00x\"}",
            b"\xff\xfe{}", b"{} trailing", b"", b"\0\0\0\0", b"nul", b"{\"Section Version\": \"clobber\"}",
            # long runs of characters that the printer escapes (\uXXXX, \\, \"), as list elements, values and keys
            ("[\"" + "\u00e9" * 60 + "\", \"x\"]").encode(), ("{\"k\": [\"" + "\u20ac" * 200 + "\"]}").encode(),
            ("{\"" + "\u00fc" * 48 + "\": \"" + "\u00e9" * 48 + "\"}").encode(), ("[\"" + "\\\\" * 64 + "\"]").encode(),
            ("[\"" + "\\\"" * 64 + "\"]").encode(), ("[\"" + "\\u00e9" * 40 + "\"]").encode(), ("[\"" + "a\\\\u" * 40 + "\"]").encode()]
    for d in docs:
        yield d if d else b"\0"
