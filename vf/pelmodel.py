"""Independent PEL *encoder*: structured model -> bytes, plus what a faithful
decoder must display for it.  Written from the PEL layout, not from the decoder:
the model is the ground truth of every decode oracle.

A section is a `Sec`; a log is a `Pel` (PH + UH + optional sections).
`Sec.expect` is a list of (key, mode, value) display obligations, compared by
`check_entry` with formatting-tolerant modes (ids numerically, names through the
frozen tables with the documented fallback, ...)."""
import json
import re
import struct
from vf import tables

PRINTABLE = "".join(chr(c) for c in range(0x20, 0x7F))
ALNUM = "ABCDEFGHIJKLMNOPQRSTUVWXYZ0123456789"
SPICY = "\":\\{}[], '"          # characters that stress the JSON printer
KNOWN_CREATORS = "BCHKLMOPST"
HEXDUMP_KINDS = ["DH", "SW", "LR", "HM", "EP", "IE", "MI", "CH", "EI"]


def u8(x): return struct.pack(">B", x & 0xFF)
def u16(x): return struct.pack(">H", x & 0xFFFF)
def u32(x): return struct.pack(">I", x & 0xFFFFFFFF)
def u64(x): return struct.pack(">Q", x & 0xFFFFFFFFFFFFFFFF)


def padded(s, width: int) -> bytes:
    b = s.encode("utf-8") if isinstance(s, str) else bytes(s)
    assert len(b) <= width, (s, width)
    return b + b"\0" * (width - len(b))


def rtext(rng, n, alphabet=None, spicy=0.15):
    if alphabet is None:
        out = []
        for _ in range(n):
            out.append(rng.choice(SPICY) if rng.random() < spicy else rng.choice(PRINTABLE))
        s = "".join(out)
    else:
        s = "".join(rng.choice(alphabet) for _ in range(n))
    return s


def clean_edges(s: str) -> str:
    """Text whose display is unambiguous: no leading/trailing blanks (decoders strip some)."""
    s = s.strip()
    return s


def bcd_time(rng):
    """8 stored bytes (YYYY MM DD HH MM SS hh) in BCD and the display string."""
    d = [rng.randrange(10) for _ in range(16)]
    if rng.random() < 0.5:       # realistic date
        y, mo, da, h, mi, s, hu = (rng.randrange(1970, 2100), rng.randrange(1, 13), rng.randrange(1, 29),
                                   rng.randrange(24), rng.randrange(60), rng.randrange(60), rng.randrange(100))
        txt = "%04d%02d%02d%02d%02d%02d%02d" % (y, mo, da, h, mi, s, hu)
        d = [int(c) for c in txt]
    r = rng.random()
    if r < 0.04:                 # a time stamp that was never set (all zero; the hundredths do not show) / all nines
        d = [0] * 14 + [rng.randrange(10), rng.randrange(10)]
    elif r < 0.05:
        d = [9] * 16
    raw = bytes((d[2 * i] << 4) | d[2 * i + 1] for i in range(8))
    t = "".join(str(x) for x in d)
    disp = "%s/%s/%s %s:%s:%s" % (t[4:6], t[6:8], t[0:4], t[8:10], t[10:12], t[12:14])
    return raw, disp


# --------------------------------------------------------------------------
class Sec:
    """One section.  body = bytes after the 8-byte section header."""
    __slots__ = ("sid", "ver", "sub", "comp", "body", "kind", "m", "expect", "ident", "payload", "note")

    def __init__(self, sid, ver, sub, comp, body, kind, m=None):
        self.sid = sid if isinstance(sid, bytes) else sid.encode("latin-1")
        self.ver, self.sub, self.comp = ver, sub, comp
        self.body = bytes(body)
        self.kind = kind              # PH UH SRC EH MT LP UD ED GEN
        self.m = m or {}
        self.expect = []              # (key, mode, value)
        self.ident = None             # (key, mode, value) that identifies this very section
        self.payload = None           # for UD/ED/GEN: the opaque payload bytes
        self.note = ""

    @property
    def length(self):
        return 8 + len(self.body)

    def encode(self, length=None) -> bytes:
        return self.sid + u16(self.length if length is None else length) + u8(self.ver) + u8(self.sub) + \
            u16(self.comp) + self.body

    @property
    def name(self):
        return tables.sectionNames.get(self.sid.decode("latin-1"), "Unknown")


class Pel:
    def __init__(self, creator, ph, uh, sections):
        self.creator = creator
        self.ph = ph                  # dict of PH fields
        self.uh = uh                  # dict of UH fields
        self.sections = sections      # optional sections

    # -- mandatory sections -------------------------------------------
    def ph_sec(self, count=None) -> Sec:
        p = self.ph
        n = (2 + len(self.sections)) if count is None else count
        body = p["create_raw"] + p["commit_raw"] + self.creator.encode("latin-1") + u8(p["res0"]) + u8(p["res1"]) + \
            u8(n) + u32(p["bmcid"]) + u64(p["cssver"]) + u32(p["plid"]) + u32(p["eid"])
        s = Sec(b"PH", p["ver"], p["sub"], p["comp"], body, "PH", p)
        s.expect = [
            ("Section Version", "dec", p["ver"]), ("Sub-section type", "dec", p["sub"]),
            ("Created by", "compid", (p["comp"], self.creator)),
            ("Created at", "eq", p["create_disp"]), ("Committed at", "eq", p["commit_disp"]),
            ("Creator Subsystem", "name", (tables.creatorIDs, self.creator, "Unknown")),
            ("CSSVER", "hex", p["cssver"]), ("Platform Log Id", "hex", p["plid"]),
            ("Entry Id", "hex", p["eid"]), ("BMC Event Log Id", "dec", p["bmcid"]),
        ]
        s.ident = ("Entry Id", "hex", p["eid"])
        return s

    def uh_sec(self) -> Sec:
        h = self.uh
        body = u8(h["subsystem"]) + u8(h["scope"]) + u8(h["sev"]) + u8(h["etype"]) + u32(h["res"]) + \
            u8(h["domain"]) + u8(h["vector"]) + u16(h["flags"]) + u32(h["states"])
        s = Sec(b"UH", h["ver"], h["sub"], h["comp"], body, "UH", h)
        s.expect = [
            ("Section Version", "dec", h["ver"]), ("Sub-section type", "dec", h["sub"]),
            ("Log Committed by", "compid", (h["comp"], self.creator)),
            ("Subsystem", "name", (tables.subsystemValues, h["subsystem"], "Invalid")),
            ("Event Scope", "name", (tables.eventScopeValues, h["scope"], "Invalid")),
            ("Event Severity", "name", (tables.severityValues, h["sev"], "Invalid")),
            ("Event Type", "name", (tables.eventTypeValues, h["etype"], "Invalid")),
            ("Action Flags", "flags", h["flags"]),
            ("Host Transmission", "name", (tables.transmissionStates, h["states"] & 0xFF, "Unknown")),
            ("HMC Transmission", "name", (tables.transmissionStates, (h["states"] >> 8) & 0xFF, "Unknown")),
        ]
        return s

    def all_sections(self):
        return [self.ph_sec(), self.uh_sec()] + list(self.sections)

    def encode(self, count=None) -> bytes:
        return self.ph_sec(count).encode() + self.uh_sec().encode() + b"".join(s.encode() for s in self.sections)

    def offsets(self):
        """(start, declared_len) of every section, in order."""
        out, off = [], 0
        for s in self.all_sections():
            out.append((off, s.length))
            off += s.length
        return out

    def names(self):
        """Expected top-level keys, in order."""
        base = [s.name for s in self.sections]
        cnt = {}
        for n in base:
            cnt[n] = cnt.get(n, 0) + 1
        seen, out = {}, ["Private Header", "User Header"]
        for n in base:
            if cnt[n] == 1:
                out.append(n)
            else:
                out.append("%s %d" % (n, seen.get(n, 0)))
                seen[n] = seen.get(n, 0) + 1
        return out

    # selection-relevant facts (C07/C08/C10)
    @property
    def sev(self): return self.uh["sev"]
    @property
    def flags(self): return self.uh["flags"]
    @property
    def eid(self): return self.ph["eid"]
    @property
    def plid(self): return self.ph["plid"]
    @property
    def bmcid(self): return self.ph["bmcid"]

    def primary_src(self):
        for s in self.sections:
            if s.sid == b"PS":
                return s
        return None


# --------------------------------------------------------------------------
# generators.  `u` is a Uniq: source of values never used twice in one shard.
class Uniq:
    def __init__(self, base=0):
        self.n = base

    def next(self):
        self.n += 1
        return self.n

    def token(self, width=8):
        """ASCII token unique in this shard, `width` chars, no JSON-special characters."""
        v = self.next()
        s = ""
        a = "ABCDEFGHJKLMNPQRSTUVWXYZ"
        for _ in range(width - 1):
            s = a[v % len(a)] + s
            v //= len(a)
        return "Z" + s


def hb(rng):
    """a header byte (section version / sub-type): boundary values are boosted"""
    r = rng.random()
    return 0 if r < 0.07 else (255 if r < 0.11 else rng.randrange(256))


def gen_compid(rng, creator):
    r = rng.random()
    if creator == "H":
        if r < 0.6:
            return (ord(rng.choice(ALNUM)) << 8) | ord(rng.choice(ALNUM))
        if r < 0.8:
            return rng.choice([0, 0x4100, 0x0041, rng.randrange(0x10000)]) & 0xFF00 if rng.random() < .5 else rng.randrange(0x100)
    if r < 0.35:
        return rng.choice([0x1000, 0x2000, 0x2700, 0x3100, 0xE500, 0x2C00, 0xA000, 0xB100])
    if r < 0.45:
        return rng.choice([0, 1, 0xFF, 0x100, 0x7FFF, 0x8000, 0xFFFF, 0xABCD, 0x00AB])
    return rng.randrange(0x10000)


def gen_ph(rng, u, creator):
    craw, cdisp = bcd_time(rng)
    while True:
        mraw, mdisp = bcd_time(rng)
        if mdisp != cdisp:
            break
    def id32():
        r = rng.random()
        if r < 0.25:
            return rng.choice([0x50000000, 0x90000000, 0xB0000000]) | (u.next() & 0xFFFFFF)
        if r < 0.5:
            return u.next() & 0xFFFF | rng.choice([0, 0x10000, 0x0FFF0000])   # short ids (< 0x10000000)
        return rng.randrange(1 << 32)
    eid = id32()
    plid = id32()
    while plid == eid:
        plid = id32()
    bmcid = rng.choice([u.next(), rng.randrange(1 << 32), rng.randrange(1, 5000)])
    if rng.random() < 0.04:
        bmcid = rng.choice([0, 0xFFFFFFFF])
    while bmcid in (eid, plid):
        bmcid = rng.randrange(1 << 32)
    if rng.random() < 0.04:
        # coincidences: the same value in neighbouring fields
        plid = eid
        if rng.random() < 0.5:
            bmcid = eid
        if rng.random() < 0.5:
            mraw, mdisp = craw, cdisp
    return dict(ver=hb(rng), sub=hb(rng), comp=gen_compid(rng, creator),
                create_raw=craw, create_disp=cdisp, commit_raw=mraw, commit_disp=mdisp,
                res0=rng.choice([0, rng.randrange(256)]), res1=rng.choice([0, rng.randrange(256)]),
                bmcid=bmcid, cssver=rng.choice([0, 1, rng.randrange(1 << 64), (1 << 64) - 1, rng.randrange(1 << 16)]),
                plid=plid, eid=eid)


SEVS_INTERESTING = sorted(set(list(tables.severityValues) + [0x01, 0x02, 0x0F, 0x11, 0x1F, 0x2F, 0x30, 0x3A, 0x4F,
                                                             0x55, 0x5F, 0x6F, 0x70, 0x7F, 0x80, 0xA0, 0xFF]))


def gen_uh(rng, creator, sev=None, flags=None):
    def coded(table):
        r = rng.random()
        if r < 0.6:
            return rng.choice(list(table))
        return rng.randrange(256)
    if sev is None:
        sev = rng.choice(SEVS_INTERESTING) if rng.random() < 0.8 else rng.randrange(256)
    if flags is None:
        r = rng.random()
        if r < 0.3:
            flags = rng.choice([0x2000, 0xA000, 0x8000, 0x4000, 0x6000, 0xE000, 0, 0xFFFF, 0x2800, 0xA800])
        elif r < 0.6:
            flags = 0
            for bit in tables.actionFlagsValues:
                if rng.random() < 0.4:
                    flags |= bit
        else:
            flags = rng.randrange(0x10000)
    t1, t2 = rng.randrange(256), rng.randrange(256)
    if rng.random() < 0.7:
        t1, t2 = rng.randrange(5), rng.randrange(5)
    while t2 == t1:
        t2 = rng.randrange(256)
    states = (rng.choice([0, rng.randrange(1 << 16)]) << 16) | (t2 << 8) | t1
    return dict(ver=hb(rng), sub=hb(rng), comp=gen_compid(rng, creator),
                subsystem=coded(tables.subsystemValues), scope=coded(tables.eventScopeValues), sev=sev,
                etype=coded(tables.eventTypeValues), res=rng.choice([0, rng.randrange(1 << 32)]),
                domain=rng.randrange(256), vector=rng.randrange(256), flags=flags, states=states)


# -- SRC ------------------------------------------------------------------
FRU_PN, FRU_CCIN, FRU_PROC, FRU_SN = 0x08, 0x04, 0x02, 0x01


class Callout:
    def __init__(self, flags, prio, loc, fru=None, pce=None, mru=None, locpad=None):
        self.flags, self.prio, self.loc = flags, prio, loc
        self.fru, self.pce, self.mru = fru, pce, mru     # dicts / list
        self.locpad = locpad

    def encode(self):
        locb = self.loc.encode("ascii")
        if locb:
            locb += b"\0" * ((-len(locb)) % 4 if self.locpad is None else self.locpad)
        body = locb
        parts = {}
        if self.fru is not None:
            f = self.fru
            fb = b""
            if f["flags"] & (FRU_PN | FRU_PROC):
                fb += padded(f["pn"], 8)
            if f["flags"] & FRU_CCIN:
                fb += padded(f["ccin"], 4)
            if f["flags"] & FRU_SN:
                fb += padded(f["sn"], 12)
            parts["fru"] = b"ID" + u8(4 + len(fb)) + u8(f["flags"]) + fb
        if self.pce is not None:
            p = self.pce
            nb = p["name"].encode("ascii")
            nb += b"\0" * (p.get("namepad", (-len(nb)) % 4))
            parts["pce"] = b"PE" + u8(24 + len(nb)) + u8(p.get("flags", 0)) + padded(p["mt"], 8) + padded(p["sn"], 12) + nb
        if self.mru is not None:
            ids = self.mru["ids"]
            parts["mru"] = b"MR" + u8(8 + 8 * len(ids)) + u8((self.mru.get("hiflags", 0) & 0xF0) | len(ids)) + \
                u32(self.mru.get("res", 0)) + b"".join(u32(pr) + u32(i) for pr, i in ids)
        # the substructures are self-describing (2-character type, length): they are found in whatever order they come
        for k in getattr(self, "order", None) or ("fru", "pce", "mru"):
            body += parts.get(k, b"")
        size = 4 + len(body)
        assert size <= 255, size
        return u8(size) + u8(self.flags) + u8(self.prio) + u8(len(locb)) + body

    def expect(self, procedures=None):
        """display obligations of this callout: list of (key, mode, value)"""
        e = []
        if self.fru is not None:
            f = self.fru
            e.append(("FRU Type", "name", (tables.failingComponentType, f["flags"] & 0xF0, "Invalid")))
            e.append(("Priority", "name", (tables.calloutPriorityValues, self.prio, "Invalid")))
            e.append(("Location Code", "eq", self.loc) if self.loc else ("Location Code", "absent", None))
            e.append(("Part Number", "eq", f["pn"]) if f["flags"] & FRU_PN else ("Part Number", "absent", None))
            e.append(("Procedure", "eq", f["pn"]) if f["flags"] & FRU_PROC else ("Procedure", "absent", None))
            e.append(("CCIN", "eq", f["ccin"]) if f["flags"] & FRU_CCIN else ("CCIN", "absent", None))
            e.append(("Serial Number", "eq", f["sn"]) if f["flags"] & FRU_SN else ("Serial Number", "absent", None))
        if self.pce is not None:
            p = self.pce
            if p["mt"]:
                e.append(("PCE MTMS", "eq", p["mt"] + "_" + p["sn"]))
            e.append(("PCE Name", "eq", p["name"]) if p["name"] else ("PCE Name", "absent", None))
        else:
            e += [("PCE MTMS", "absent", None), ("PCE Name", "absent", None)]
        if self.mru is not None:
            e.append(("MRU Id", "mrulist", [i for _, i in self.mru["ids"]]))
        else:
            e.append(("MRU Id", "absent", None))
        return e


def fieldtext(rng, u, width, full=False, alphabet=None, may_be_empty=True):
    """Unique printable text for a fixed-width field (token + filler), NUL-padded when short; sometimes empty (all NULs)."""
    if may_be_empty and not full and rng.random() < 0.04:
        return ""
    tok = u.token(min(width, 6))
    n = width if full or rng.random() < 0.5 else rng.randrange(len(tok), width + 1)
    s = tok + rtext(rng, n - len(tok), alphabet)
    s = clean_edges(s) or tok
    if not full and rng.random() < 0.08 and len(s) > len(tok) + 1:
        s = multibyte(rng, s, len(tok), width)
    return s


def multibyte(rng, s, lo, width):
    """replace one character of s (at index >= lo) by printable non-ASCII text; the result fits into `width` bytes"""
    if True:
        tok = s[:lo]
        # printable non-ASCII text: a character that takes two or three bytes (the field width counts bytes)
        # ... including sequences that Unicode normalisation would rewrite (decomposed u-diaeresis, KELVIN SIGN, OHM SIGN,
        # ANGSTROM SIGN, a ligature, a full-width digit): the field shows the stored code points, not an equivalent
        ch = rng.choice(["\u00b5", "\u00e9", "\u20ac", "\u00df", "u\u0308", "\u212a", "\u2126", "\u212b", "\ufb01", "\uff11"])
        extra = len(ch.encode("utf-8")) - 1
        k = rng.randrange(len(tok), len(s))
        t = s[:k] + ch + s[k + 1:]
        while len(t.encode("utf-8")) > width:
            t = t[:-1]
        if ch in t and clean_edges(t) == t:
            s = t
    return s


def gen_callout(rng, u, must_fru=True):
    loc = ""
    r = rng.random()
    if r < 0.8:
        n = rng.choice([4, 8, 11, 12, 16, 20, 26, 40, 60, 79, 80]) if rng.random() < 0.5 else rng.randrange(1, 81)
        loc = clean_edges(u.token(min(n, 5)) + rtext(rng, max(0, n - 5), ALNUM + "-.", 0))
    fru = None
    if must_fru or rng.random() < 0.9:
        low = rng.choice([0, FRU_PN, FRU_PROC, FRU_PN | FRU_CCIN, FRU_PN | FRU_SN, FRU_PN | FRU_CCIN | FRU_SN,
                          FRU_PROC | FRU_CCIN, FRU_CCIN, FRU_SN, FRU_CCIN | FRU_SN, FRU_PROC | FRU_SN,
                          FRU_PROC | FRU_CCIN | FRU_SN])
        hi = rng.choice(list(tables.failingComponentType) + [0x00, 0x50, 0x70, 0xF0])
        pn = fieldtext(rng, u, 7, alphabet=ALNUM)
        if low & FRU_PROC and rng.random() < 0.6:
            pn = rng.choice(["BMC0001", "BMC0002", "BMC0004", "BMC0008", "BMC0009", "FXPROC1", "FXPROC2", "FXRAISE", "NOPE123"])
        fru = dict(flags=hi | low, pn=pn, ccin=fieldtext(rng, u, 4, full=True, alphabet=ALNUM),
                   sn=fieldtext(rng, u, 12, alphabet=ALNUM))
    pce = None
    if rng.random() < 0.3:
        # 0: an empty name in the form the encoders produce it - the terminator padded to four bytes (a PCE identity of
        # exactly its 24 fixed bytes has no name field at all; the pinned tree rejects it through get_mem(0), and it is not
        # generated: see ASSUMPTIONS of C03)
        nlen = rng.choice([1, 3, 4, 7, 8, 16, 31, 40, 0])
        pce = dict(mt=fieldtext(rng, u, 8, alphabet=ALNUM + "-"), sn=fieldtext(rng, u, 12, alphabet=ALNUM),
                   name=clean_edges(u.token(min(nlen, 5)) + rtext(rng, max(0, nlen - 5), ALNUM + " _-", 0)) if nlen else "",
                   flags=rng.randrange(256))
        if rng.random() < 0.1:
            pce["mt"] = ""
        if not nlen:
            pce["namepad"] = 4
    mru = None
    if rng.random() < 0.3:
        n = rng.choice([0, 1, 2, 3, 15, rng.randrange(16)])
        pool_ids = [rng.randrange(1 << 32) for _ in range(max(1, n // 2))] if rng.random() < 0.4 else None   # repeated ids
        mru = dict(ids=[(rng.choice([0x48, 0x4D, 0x4C, rng.randrange(1 << 32)]),
                         rng.choice(pool_ids) if pool_ids else rng.randrange(1 << 32)) for _ in range(n)],
                   res=rng.choice([0, rng.randrange(1 << 32)]), hiflags=rng.choice([0, 0xF0, 0x10]))
    if fru is None and rng.random() < 0.6:
        pce = mru = None                 # a bare callout: flags, priority and (maybe) a location code, no substructure
    c = Callout(rng.randrange(256), rng.choice(list(tables.calloutPriorityValues) + [0, 0x20, 0x4E, 0xFF]), loc,
                fru, pce, mru)
    if sum(x is not None for x in (fru, pce, mru)) >= 2 and rng.random() < 0.12:
        c.order = tuple(rng.sample(["fru", "pce", "mru"], 3))
    # keep the whole callout encodable in the one-byte size field
    while len(c.encode_safe()) > 255:
        if c.pce is not None:
            c.pce = None
        elif c.mru is not None and len(c.mru["ids"]) > 2:
            c.mru["ids"] = c.mru["ids"][:2]
        else:
            c.loc = c.loc[:20]
    return c


def _encode_safe(self):
    try:
        return self.encode()
    except AssertionError:
        return b"\0" * 256


Callout.encode_safe = _encode_safe

SRC_TYPES = ["BD", "11", "BC", "B7", "B1", "A7", "C1"]


def gen_src(rng, u, primary, creator, srctype=None, refcode=None, ncallouts=None, wordcount=None, reg=None, words=None):
    """reg: optional registry model (vf.fixtures) used to aim reason codes at defined messages."""
    t = srctype or (rng.choice(SRC_TYPES[:3]) if rng.random() < 0.7 else rng.choice(SRC_TYPES))
    own_refcode = refcode is None
    if refcode is None:
        compb = rng.choice(["E5", "8D", "2C", "10", "FX", "FY", "AA"]) if rng.random() < 0.7 else "%02X" % rng.randrange(256)
        reason = "%04X" % rng.randrange(0x10000)
        if reg and rng.random() < 0.6:
            cands = [r for r in reg if r["type"] == t]
            if cands:
                reason = rng.choice(cands)["reason"][2:]
        if t == "BD" and rng.random() < 0.35:
            # BMC reference code = "BD" + subsystem + reason code; the reason code's first byte names the component
            # whose SRC parser module is consulted (fixture modules: FX, FY; shipped: E5)
            reason = rng.choice(["FX", "FX", "FY", "E5", "E5", "2C"]) + rng.choice("0123456789ABCDEF") + rng.choice("0123456789ABCDEF")
        if t == "11":
            refcode = "1100" + reason
        else:
            refcode = t + compb.replace("FX", "8D").replace("FY", "8D") + reason
    given_words = words
    words = [rng.randrange(1 << 32) if rng.random() < 0.8 else rng.choice([0, 1, 0xFFFFFFFF, 0x80000000, 0x0000FFFF])
             for _ in range(8)]
    # make words distinct so that any swap shows
    for i in range(8):
        while words[i] in words[:i]:
            words[i] = rng.randrange(1 << 32)
    if rng.random() < 0.7:
        w5 = words[3] & ~0x23000000
        for bit in (0x20000000, 0x02000000, 0x01000000):
            if rng.random() < 0.5:
                w5 |= bit
        words[3] = w5
    if rng.random() < 0.04:
        words = [rng.choice([0, 0xFFFFFFFF, words[0]])] * 8          # every word the same value
    if given_words is not None:
        words = list(given_words)
    wc = wordcount if wordcount is not None else rng.choice([9, 9, 9, 1, 2, 3, 4, 5, 6, 7, 8, 0])
    flags = rng.randrange(256) & ~0x01
    if ncallouts is None:
        ncallouts = rng.choice([0, 0, 1, 1, 2, 3, 4, 6, 10])
    callouts = [gen_callout(rng, u, must_fru=rng.random() > 0.1) for _ in range(ncallouts)]     # 10%: may be a bare callout
    if len(callouts) >= 2 and rng.random() < 0.15:
        callouts[rng.randrange(1, len(callouts))] = callouts[0]      # the same callout listed twice
    has_sub = ncallouts > 0 or rng.random() < 0.1
    if has_sub:
        flags |= 0x01
    srcver = rng.randrange(256)
    tail = ""
    r = rng.random()
    if own_refcode and r > 0.95 and refcode[7:8] not in "EFABDC":
        refcode = refcode[:rng.choice([4, 5, 6, 7, 7])]      # a reference code shorter than eight characters, blank padded
    if r < 0.3:
        tail = " " + u.token(6)
    elif r < 0.36:
        # a reference code that uses the whole 32-character field (or all but one character)
        n = rng.choice([32, 32, 31]) - len(refcode)
        tail = " " + u.token(6) + rtext(rng, n - 7, ALNUM + "-", 0)
    ascii32 = (refcode + tail).ljust(32)[:32]
    sub = b""
    if has_sub:
        cb = b"".join(c.encode() for c in callouts)
        assert len(cb) % 4 == 0
        sub = u8(0xC0) + u8(rng.choice([0, rng.randrange(256)])) + u16((4 + len(cb)) // 4) + cb
    body = u8(srcver) + u8(flags) + u8(rng.choice([0, rng.randrange(256)])) + u8(wc) + u16(rng.choice([0, 0xFFFF])) + \
        u16(72 + len(sub)) + b"".join(u32(w) for w in words) + ascii32.encode("ascii") + sub
    s = Sec(b"PS" if primary else b"SS", hb(rng), hb(rng), gen_compid(rng, creator), body, "SRC",
            dict(srcver=srcver, flags=flags, wc=wc, words=words, ascii=ascii32, refcode=ascii32.strip(),
                 type=ascii32[0:2], callouts=callouts, has_sub=has_sub, creator=creator))
    tf = lambda b: "True" if b else "False"
    e = [("Section Version", "dec", s.ver), ("Sub-section type", "dec", s.sub),
         ("Created by", "compid", (s.comp, creator)),
         ("SRC Version", "hex", srcver), ("SRC Format", "hex", words[0] & 0xFF),
         ("Virtual Progress SRC", "eq", tf(flags & 0x80)), ("I5/OS Service Event Bit", "eq", tf(flags & 0x10)),
         ("Hypervisor Dump Initiated", "eq", tf(flags & 0x04)),
         ("Valid Word Count", "hex", wc), ("Reference Code", "eq", ascii32.strip())]
    if ascii32[0:2] in ("BD", "11"):
        e += [("Backplane CCIN", "hex", words[1] >> 16), ("Terminate FW Error", "eq", tf(words[3] & 0x20000000))]
    if ascii32[0:2] in ("BD", "11", "BC"):
        e += [("Deconfigured", "eq", tf(words[3] & 0x02000000)), ("Guarded", "eq", tf(words[3] & 0x01000000))]
    for i in range(2, wc + 1):
        e.append(("Hex Word %d" % i, "hex", words[i - 2]))
    if has_sub:
        e.append(("Callout Section", "callouts", callouts))
    else:
        e.append(("Callout Section", "absent", None))
    s.expect = e
    s.ident = ("Reference Code", "eq", ascii32.strip())
    return s


def gen_eh(rng, u, creator, symlen=None):
    mt = fieldtext(rng, u, 8, alphabet=ALNUM + "-")
    sn = fieldtext(rng, u, 12, alphabet=None)
    fw = fieldtext(rng, u, 16)
    sfw = fieldtext(rng, u, 16)
    raw, disp = bcd_time(rng)
    if symlen is None:
        symlen = rng.choice([0, 0, 4, 8, 20, 40, 80, 252, rng.randrange(0, 64) * 4])
    sym = ""
    if symlen:
        n = symlen if rng.random() < 0.3 else rng.randrange(1, symlen + 1)
        sym = clean_edges(u.token(min(n, 6)) + rtext(rng, max(0, n - 6), ALNUM + "_", 0))
    body = padded(mt, 8) + padded(sn, 12) + padded(fw, 16) + padded(sfw, 16) + u32(rng.choice([0, rng.randrange(1 << 32)])) + \
        raw + bytes([rng.choice([0, rng.randrange(256)]) for _ in range(3)]) + u8(symlen) + padded(sym, symlen)
    s = Sec(b"EH", hb(rng), hb(rng), gen_compid(rng, creator), body, "EH",
            dict(mt=mt, sn=sn, fw=fw, sfw=sfw, symlen=symlen, sym=sym))
    s.expect = [("Section Version", "dec", s.ver), ("Sub-section type", "dec", s.sub),
                ("Created by", "compid", (s.comp, creator)),
                ("Reporting Machine Type", "eq", mt), ("Reporting Serial Number", "eq", sn),
                ("FW Released Ver", "eq", fw), ("FW SubSys Version", "eq", sfw),
                ("Common Ref Time", "eq", disp), ("Symptom Id Len", "dec", symlen), ("Symptom Id", "eq", sym)]
    s.ident = ("Reporting Serial Number", "eq", sn)
    return s


def gen_mt(rng, u, creator):
    mt = fieldtext(rng, u, 8, alphabet=ALNUM + "-")
    sn = fieldtext(rng, u, 12)
    s = Sec(b"MT", hb(rng), hb(rng), gen_compid(rng, creator), padded(mt, 8) + padded(sn, 12), "MT",
            dict(mt=mt, sn=sn))
    s.expect = [("Section Version", "dec", s.ver), ("Sub-section type", "dec", s.sub),
                ("Created by", "compid", (s.comp, creator)),
                ("Machine Type Model", "eq", mt), ("Serial Number", "eq", sn)]
    s.ident = ("Serial Number", "eq", sn)
    return s


def gen_lp(rng, u, creator, ntargets=None, namelen=None):
    if namelen is None:
        namelen = rng.choice([0, 4, 8, 12, 32, 64, 252, rng.randrange(0, 64) * 4])
    name = ""
    if namelen:
        n = namelen if rng.random() < 0.3 else rng.randrange(1, namelen + 1)
        name = clean_edges(u.token(min(n, 6)) + rtext(rng, max(0, n - 6)))
        if len(name) > 8 and rng.random() < 0.1:
            name = multibyte(rng, name, min(n, 6), namelen)
    if ntargets is None:
        ntargets = rng.choice([0, 1, 2, 3, 4, 5, 8, 17, 64, 255, rng.randrange(256)])
    targets = []
    while len(targets) < ntargets:
        t = rng.randrange(0x10000)
        targets.append(t)
    if ntargets <= 200:      # all distinct when possible
        targets = rng.sample(range(0x10000), ntargets)
    prim = rng.randrange(0x10000)
    logid = rng.randrange(1 << 32)
    body = u16(prim) + u8(namelen) + u8(ntargets) + u32(logid) + padded(name, namelen) + \
        b"".join(u16(t) for t in targets) + (b"\0\0" if ntargets % 2 else b"")
    s = Sec(b"LP", hb(rng), hb(rng), gen_compid(rng, creator), body, "LP",
            dict(prim=prim, namelen=namelen, name=name, targets=targets, logid=logid))
    s.expect = [("Section Version", "dec", s.ver), ("Sub-section type", "dec", s.sub),
                ("Created by", "compid", (s.comp, creator)),
                ("Primary Partition ID", "hex", prim), ("Length of LP Name", "hex", namelen),
                ("Target LP Count", "hex", ntargets), ("Logical Partition Log ID", "hex", logid),
                ("Primary Partition Name", "eq", name), ("Target LP*", "targets", targets)]
    s.ident = ("Logical Partition Log ID", "hex", logid)
    return s


# -- opaque-payload sections -------------------------------------------------
PAYLOAD_LENS = [1, 2, 3, 4, 15, 16, 17, 31, 32, 33, 48, 100, 255, 256, 1000, 4096]


def gen_payload(rng, u, n=None):
    if n is None:
        n = rng.choice(PAYLOAD_LENS) if rng.random() < 0.7 else rng.randrange(1, 600)
    r = rng.random()
    if r < 0.25:
        b = bytes(rng.randrange(256) for _ in range(n))
    elif r < 0.45:
        b = bytes(rng.choice([0x1F, 0x20, 0x7E, 0x7F, 0x00, 0xFF, 0x22, 0x3A, 0x5C]) for _ in range(n))
    elif r < 0.65:
        b = rtext(rng, n).encode("ascii")
    elif r < 0.75:
        b = bytes([rng.randrange(256)]) * n
    else:
        b = bytes((i * 7 + 3) & 0xFF for i in range(n))
    tok = u.token(8).encode()
    if n >= len(tok):
        pos = rng.randrange(0, n - len(tok) + 1)
        b = b[:pos] + tok + b[pos + len(tok):]
    return b


def sec_generic(rng, u, sid, payload=None):
    """hexdump-only kinds and unknown ids: body is the payload."""
    p = gen_payload(rng, u) if payload is None else payload
    s = Sec(sid, hb(rng), hb(rng), rng.choice([0, 0xFFFF, rng.randrange(0x10000)]) if rng.random() < 0.1 else rng.randrange(0x10000), p, "GEN")
    s.payload = p
    s.expect = [("Section Version", "dec", s.ver), ("Sub-section type", "dec", s.sub), ("Created by", "hex", s.comp),
                ("Data", "dump", p)]
    s.ident = ("Data", "dump", p)
    return s


def sec_ud(rng, u, creator, comp, sub, ver, payload, ext_creator=None, expect_mode="dump"):
    """User Data (ext_creator None) or Extended User Data (creator char stored in the section)."""
    if ext_creator is None:
        s = Sec(b"UD", ver, sub, comp, payload, "UD")
        eff = creator
    else:
        s = Sec(b"ED", ver, sub, comp, ext_creator.encode("latin-1") + bytes([rng.choice([0, rng.randrange(256)])]) +
                u16(rng.choice([0, rng.randrange(0x10000)])) + payload, "ED")
        eff = ext_creator
    s.payload = payload
    s.m = dict(creator=eff, comp=comp, sub=sub, ver=ver, mode=expect_mode)
    s.expect = [("Section Version", "dec", ver), ("Sub-section type", "dec", sub), ("Created by", "compid", (comp, eff))]
    if expect_mode == "dump":
        s.expect.append(("Data", "dump", payload))
        s.ident = ("Data", "dump", payload)
    return s


def json_payload(rng, u, depth=0):
    """JSON document (dict) for BMC built-in JSON user data, with hostile strings."""
    def sval(d):
        r = rng.random()
        if r < 0.35:
            return rtext(rng, rng.randrange(0, 24), spicy=0.3)
        if r < 0.45:
            return rng.choice(["\": ", "a\": b", "{", "x\": {", "é\": ü", "\\\": ", "tab\there", "nl\nline", " ", "\"", "\\"])
        if r < 0.6:
            return rng.randrange(-10**6, 10**6)
        if r < 0.65:
            return rng.choice([True, False, None, 1.5, 0, -0.0, 1e10])
        if r < 0.8 and d < 3:
            return [sval(d + 1) for _ in range(rng.randrange(0, 4))]
        if d < 3:
            return {skey(): sval(d + 1) for _ in range(rng.randrange(0, 4))}
        return "leaf"

    def skey():
        r = rng.random()
        if r < 0.6:
            return u.token(5) + rtext(rng, rng.randrange(0, 10), spicy=0.3)
        if r < 0.7:
            return u.token(5) + rng.choice(["\": ", "\":x", ": ", "{", "\\", "\\\"", "é"])
        return u.token(5) + rtext(rng, rng.randrange(20, 50), ALNUM + " ")
    d = {}
    for _ in range(rng.randrange(1, 6)):
        d[skey()] = sval(0)
    return d


def text_payload(rng, u):
    lines = []
    for _ in range(rng.randrange(1, 7)):
        r = rng.random()
        if r < 0.5:
            lines.append(rtext(rng, rng.randrange(0, 40), spicy=0.25))
        elif r < 0.7:
            lines.append(rng.choice(['line "x": y', 'key": value', '{', 'a: b', '":', ' lead', 'trail ', "tab\tx", "cr\rx",
                                     "café", "€ uro", "\x7f del", "\x1f us", "~tilde", ""]))
        else:
            lines.append(u.token(6) + rtext(rng, rng.randrange(0, 10)))
    return lines


def text_reference(raw_text: str):
    """What the built-in text format must display for the (already NUL-stripped) text."""
    t = raw_text.strip()
    lines = t.split("\n")
    if lines and lines[-1] == "":
        lines.pop()
    out = []
    for ln in lines:
        out.append("".join(ch if 0x20 <= ord(ch) <= 0x7E else "." for ch in ln))
    if t == "":
        return []
    return out


# --------------------------------------------------------------------------
# comparison of a decoded entry with the model
_HEXTOK = re.compile(r"^(0[xX])?[0-9a-fA-F]+$")


def as_hex(v):
    if isinstance(v, int) and not isinstance(v, bool):
        return v
    if isinstance(v, str) and _HEXTOK.match(v.strip()):
        return int(v.strip(), 16)
    raise ValueError("not a hex number: %r" % (v,))


def as_hex_or_none(v):
    try:
        return as_hex(v)
    except ValueError:
        return None


def as_dec(v):
    if isinstance(v, bool):
        raise ValueError("bool")
    if isinstance(v, int):
        return v
    if isinstance(v, str) and re.match(r"^\d+$", v.strip()):
        return int(v.strip())
    raise ValueError("not a decimal number: %r" % (v,))


class CompNames:
    """component-id display names supplied to the decoder (fixture) - {creator: {"XXXX": name}}"""
    table = {}
    lenient = False      # a name file is damaged: the creator's own name or the raw id are both acceptable


def parse_dump(lines):
    """Independent parser of the default hex-dump layout: offset, hex groups, 5 spaces, text."""
    out = bytearray()
    if not isinstance(lines, list):
        raise ValueError("dump is not a list")
    for k, ln in enumerate(lines):
        if not isinstance(ln, str):
            raise ValueError("dump line not str")
        m = re.match(r"^([0-9A-Fa-f]{8}) {5}(.*)$", ln)
        if not m:
            raise ValueError("bad dump line %r" % ln)
        if int(m.group(1), 16) != len(out):
            raise ValueError("offset %s != %d" % (m.group(1), len(out)))
        rest = m.group(2)
        # hex area is 16*2 + 3*2 = 38 chars, then 5 blanks, then 16 chars of text
        hexarea = rest[:38]
        digits = hexarea.replace(" ", "")
        if len(digits) % 2 or not re.match(r"^[0-9A-Fa-f]*$", digits):
            raise ValueError("bad hex area %r" % hexarea)
        out += bytes.fromhex(digits)
    return bytes(out)


def check_field(entry, key, mode, value, problems, where):
    if mode == "absent":
        if key in entry:
            problems.append(("unexpected-" + key, "%s: key %r present (%r) although the log does not encode it" % (where, key, entry[key])))
        return
    if mode == "targets":
        toks = []
        for k, v in entry.items():
            if k.startswith("Target LP") and k != "Target LP Count":
                for x in (v if isinstance(v, list) else [v]):
                    toks += re.findall(r"0[xX][0-9A-Fa-f]{1,4}|\b[0-9A-Fa-f]{4}\b", x if isinstance(x, str) else "%04X" % x)
        got = [int(t, 16) for t in toks]
        if got != list(value):
            problems.append(("Target LP", "%s: target partition ids shown %s, encoded %s" % (where, [hex(g) for g in got][:12], [hex(g) for g in value][:12])))
        return
    if mode == "contains":
        key_present = True
    if key not in entry and mode != "contains":
        problems.append(("missing-" + key, "%s: key %r missing" % (where, key)))
        return
    shown = entry.get(key)
    try:
        if mode == "eq":
            ok = shown == value
        elif mode == "hex":
            ok = as_hex(shown) == value
        elif mode == "dec":
            ok = as_dec(shown) == value
        elif mode == "name":
            table, code, fallback = value
            if code in table:
                ok = shown == table[code]
            else:      # not in the frozen table: documented fallback, or a name added later
                ok = isinstance(shown, str) and (shown == fallback or shown not in table.values())
        elif mode == "flags":
            want = {n for b, n in tables.actionFlagsValues.items() if b & value}
            undefined = value & ~sum(tables.actionFlagsValues)
            ok = isinstance(shown, list) and len(set(shown)) == len(shown)
            if ok:
                s = set(shown)
                extra = s - want
                # names for bits defined after the pinned commit are acceptable, frozen names are not
                ok = want <= s and not (extra & set(tables.actionFlagsValues.values())) and \
                    (not extra or undefined != 0)
        elif mode == "compid":
            comp, creator = value
            names = CompNames.table.get(creator, {})
            if tables.creatorIDs.get(creator) == "PHYP":
                hi, lo = comp >> 8, comp & 0xFF
                if hi and lo:
                    ok = shown == chr(hi) + chr(lo)
                else:
                    ok = as_hex(shown) == comp
            elif "%04X" % comp in names:
                ok = shown == names["%04X" % comp] or (CompNames.lenient and as_hex_or_none(shown) == comp)
            else:
                ok = as_hex(shown) == comp
        elif mode == "dump":
            ok = parse_dump(shown) == bytes(value)
        elif mode == "dumpws":
            # the payload as text that could not be taken as JSON: dumped with its padding / outer white space possibly removed
            ws = b" \t\r\n\x0b\x0c\x00"
            ok = parse_dump(shown).strip(ws) == bytes(value).strip(ws)
        elif mode == "mrulist":
            got = [int(t, 16) for t in re.findall(r"[0-9A-Fa-f]+", shown if isinstance(shown, str) else ",".join(map(str, shown)))] \
                if value else []
            ok = got == list(value) and (bool(value) or shown in ("", []))
        elif mode == "callouts":
            ok = True
            check_callouts(shown, value, problems, where)
        elif mode == "contains":
            bad = [k for k, v in value.items() if k not in entry or entry[k] != v]
            ok = not bad
            if bad:
                shown = {k: entry.get(k, "<missing>") for k in bad[:4]}
                value = {k: value[k] for k in bad[:4]}
        elif mode == "present":
            ok = isinstance(shown, str) and shown != ""
        elif mode == "textlines":
            # trailing blanks of a line are not constrained (padding conventions differ)
            # nor are empty lines at the very beginning / end (whitespace around the text is padding)
            def norm(ls):
                ls = [str(x).rstrip() for x in ls]
                while ls and ls[-1] == "":
                    ls.pop()
                while ls and ls[0] == "":
                    ls.pop(0)
                return ls
            ok = isinstance(shown, list) and norm(shown) == norm(value)
        else:
            raise AssertionError(mode)
    except ValueError as ex:
        ok = False
        shown = "%r (%s)" % (shown, ex)
    if not ok:
        v = value
        if mode == "name":
            v = "table[%#x] -> %r" % (value[1], value[0].get(value[1], value[2]))
        elif mode in ("dump", "dumpws"):
            v = "dump of %d bytes" % len(value)
            shown = (shown[:3] if isinstance(shown, list) else shown)
        elif mode in ("hex",):
            v = hex(value)
        problems.append((key, "%s: %r shown as %r, encoded %s [%s]" % (where, key, shown, v, mode)))


def check_callouts(shown, callouts, problems, where):
    if not isinstance(shown, dict):
        problems.append(("Callout Section", "%s: Callout Section is %r" % (where, type(shown))))
        return
    try:
        cnt = as_dec(shown.get("Callout Count"))
    except ValueError:
        cnt = None
    lst = shown.get("Callouts")
    if cnt != len(callouts):
        problems.append(("Callout Count", "%s: Callout Count %r, encoded %d callouts" % (where, shown.get("Callout Count"), len(callouts))))
    if not isinstance(lst, list) or len(lst) != len(callouts):
        problems.append(("Callouts", "%s: %s callouts listed, %d encoded" % (where, len(lst) if isinstance(lst, list) else lst, len(callouts))))
        return
    for j, (got, c) in enumerate(zip(lst, callouts)):
        for key, mode, value in c.expect():
            check_field(got, key, mode, value, problems, "%s callout %d" % (where, j))


def check_entry(entry, sec, problems, where):
    """Compare one decoded top-level entry with its section model."""
    if not isinstance(entry, dict):
        problems.append(("entry-type", "%s: entry is %r" % (where, type(entry))))
        return
    for key, mode, value in sec.expect:
        check_field(entry, key, mode, value, problems, where)


def check_ident(entry, sec, problems, where):
    if sec.ident is None or not isinstance(entry, dict):
        return
    key, mode, value = sec.ident
    check_field(entry, key, mode, value, problems, where)
