"""Drivers and attach points: loads the repository under test, activates
fixtures, runs decodes / the CLI in-process or in a subprocess, and provides the
generic wrapping helpers used by the monitors.  Nothing here edits the repo."""
import contextlib
import io
import json
import os
import subprocess
import sys
import traceback

from vf import env

_loaded = {}


def repo(plugins=True):
    """Import the repository modules once; returns a namespace dict."""
    if _loaded:
        return _loaded
    import pel.datastream as ds
    import pel.hexdump as hx
    import pel.peltool.peltool as pt
    import pel.peltool.src as src
    import pel.peltool.parse_user_data as pud
    import pel.peltool.comp_id as comp_id
    import pel.peltool.config as config
    _loaded.update(ds=ds, hx=hx, pt=pt, src=src, pud=pud, comp_id=comp_id, config=config,
                   DataStream=ds.DataStream, Config=config.Config)
    assert os.path.realpath(pt.__file__).startswith(os.path.realpath(env.MODULES)), (pt.__file__, env.MODULES)
    if plugins:
        plugins_on()
    load_compnames()
    return _loaded


def plugins_on():
    """Emulate 'another distribution installed more parser modules': extend the
    real (regular) packages' search path with the fixture plugin directories."""
    import udparsers
    import srcparsers
    import calloutparsers
    for pkg, sub in ((udparsers, "udparsers"), (srcparsers, "srcparsers"), (calloutparsers, "calloutparsers")):
        p = os.path.join(env.FIXTURES, "plugins", sub)
        if p not in pkg.__path__:
            pkg.__path__.append(p)


BMC_ROOT = "/usr/share/phosphor-logging/pels"
_bmc = {"dir": None, "damaged": None, "opens": 0}


def bmc_layout(kind="ok"):
    """Emulate the BMC file-system layout: no pel_registry distribution on the path, the message registry and the
    component-id name files under /usr/share/phosphor-logging/pels.  The file API (os.stat/lstat/listdir/scandir/open/
    access, builtins.open, io.open) is wrapped so that paths below that directory resolve into a scratch copy of the
    fixture files; everything else passes through untouched.  kind 'damaged': one creator's name file is unusable
    (empty / truncated / not JSON).  Call before harness.repo()."""
    import builtins
    import shutil
    assert not _loaded and env.REGISTRY_DIR not in sys.path
    target = os.path.join(scratch_root(), "bmcroot")
    shutil.rmtree(target, ignore_errors=True)
    os.makedirs(target)
    src = os.path.join(env.REGISTRY_DIR, "pel_registry")
    for f in os.listdir(src):
        if f.endswith(".json"):
            shutil.copy(os.path.join(src, f), target)
    with open(os.path.join(target, "README"), "w") as f:       # not a name file
        f.write("component id name files\n")
    if kind.startswith("damaged"):
        victim = {"damaged-O": "O", "damaged-B": "B"}[kind]
        _bmc["damaged"] = victim
        path = os.path.join(target, victim + "_component_ids.json")
        content = open(path, "rb").read()
        with open(path, "wb") as f:
            f.write({"O": b"", "B": content[:len(content) // 2]}[victim])
    _bmc["dir"] = target

    def remap(p):
        try:
            s = os.fspath(p)
        except TypeError:
            return p
        if isinstance(s, bytes):
            try:
                s = s.decode()
            except UnicodeDecodeError:
                return p
        if s == BMC_ROOT or s.startswith(BMC_ROOT + "/"):
            _bmc["opens"] += 1
            return target + s[len(BMC_ROOT):]
        return p

    def wrap(mod, name):
        orig = getattr(mod, name)

        def f(path, *a, **kw):
            return orig(remap(path), *a, **kw)
        f.__name__ = name
        setattr(mod, name, f)
    for name in ("stat", "lstat", "listdir", "scandir", "open", "access"):
        wrap(os, name)
    wrap(builtins, "open")
    wrap(io, "open")
    return target


def registry_dir():
    if _bmc["dir"]:
        return _bmc["dir"]
    if env.REGISTRY_DIR in sys.path:
        return os.path.join(env.REGISTRY_DIR, "pel_registry")
    return None


def registry_active():
    return registry_dir() is not None


def load_compnames():
    from vf.pelmodel import CompNames
    CompNames.table = {}
    CompNames.lenient = bool(_bmc["damaged"])
    d = registry_dir()
    if d:
        for f in os.listdir(d):
            if f.endswith("_component_ids.json") and not f.startswith("."):
                try:
                    with open(os.path.join(d, f)) as fd:
                        CompNames.table[f[0:f.find("_component_ids.json")]] = json.load(fd)
                except ValueError:
                    pass


def registry_model():
    """[{type, reason, message, args, words6to9}] in registry order (first match wins)."""
    if not registry_active():
        return []
    with open(os.path.join(registry_dir(), "message_registry.json")) as f:
        pels = json.load(f)["PELs"]
    out = []
    for p in pels:
        if "ReasonCode" not in p["SRC"]:
            continue
        out.append(dict(type=p["SRC"].get("Type", "BD"), reason=p["SRC"]["ReasonCode"],
                        message=p["Documentation"]["Message"], args=p["Documentation"].get("MessageArgSources"),
                        w69=p["SRC"].get("Words6To9") or {}))
    return out


def make_config(**kw):
    c = repo()["Config"]()
    for k, v in kw.items():
        if not hasattr(c, k):
            raise AttributeError(k)
        setattr(c, k, v)
    return c


class Outcome:
    __slots__ = ("eid", "text", "exc", "out", "err", "doc", "pairs", "exit", "final_index")

    def __init__(self):
        self.eid = self.text = self.exc = self.doc = self.pairs = self.exit = self.final_index = None
        self.out = self.err = ""

    @property
    def kind(self):
        if self.exit is not None:
            return "exit"
        if self.exc is not None:
            return "error"
        return "doc" if self.text else "nothing"


def decode(data: bytes, config=None, exit_on_error=False, parse=True, embed=None) -> Outcome:
    """parsePEL on `data`, capturing everything a caller can observe.  embed=(before, after): the PEL sits inside a larger
    stream (a container, several PELs back to back) whose cursor stands at the PEL's first byte, as parsePEL's in/out
    stream parameter allows; final_index is reported relative to the PEL's start."""
    r = repo()
    o = Outcome()
    cfg = config if config is not None else make_config(every_pel=True)
    so, se = io.StringIO(), io.StringIO()
    stream = None
    try:
        with contextlib.redirect_stdout(so), contextlib.redirect_stderr(se):
            # peltool hands the file content (bytes) to DataStream, exactly as here
            if embed:
                stream = r["DataStream"](bytes(embed[0]) + bytes(data) + bytes(embed[1]), byte_order="big", is_signed=False)
                stream.index = len(embed[0])
            else:
                stream = r["DataStream"](bytes(data), byte_order="big", is_signed=False)
            o.eid, o.text = r["pt"].parsePEL(stream, cfg, exit_on_error)
    except SystemExit as e:
        o.exit = e.code
    except BaseException as e:           # noqa - classify, never hide
        o.exc = e
    o.out, o.err = so.getvalue(), se.getvalue()
    o.final_index = getattr(stream, "index", None)
    if embed and o.final_index is not None:
        o.final_index -= len(embed[0])
    if parse and o.text:
        try:
            o.doc = json.loads(o.text)
            o.pairs = json.loads(o.text, object_pairs_hook=list)
        except ValueError as e:
            o.doc = None
            o.exc = o.exc or e
    return o


def cli_outcome(argv, text_from=None) -> Outcome:
    """peltool main() in-process; the printed document (or the file `text_from`) as an Outcome like decode()'s."""
    rc, so, se, tb = cli(argv)
    o = Outcome()
    o.err = se
    text = so
    if text_from is not None:
        try:
            with open(text_from) as f:
                text = f.read()
        except OSError:
            text = ""
    if tb:
        o.exc = RuntimeError(tb[-400:])
        return o
    try:
        o.doc = json.loads(text)
        o.pairs = json.loads(text, object_pairs_hook=list)
        o.text = text
    except ValueError as e:
        o.exc = e
    return o


def cli(argv, stdin=None):
    """peltool main() in-process.  Returns (rc, stdout, stderr, traceback_text|None)."""
    r = repo()
    old_argv = sys.argv
    sys.argv = ["peltool.py"] + list(argv)
    so, se = io.StringIO(), io.StringIO()
    rc, tb = 0, None
    try:
        with contextlib.redirect_stdout(so), contextlib.redirect_stderr(se):
            try:
                r["pt"].main()
            except SystemExit as e:
                if e.code is None:
                    rc = 0
                elif isinstance(e.code, int):
                    rc = e.code
                else:
                    se.write(str(e.code) + "\n")
                    rc = 1
            except BaseException:       # noqa
                tb = traceback.format_exc()
                se.write(tb)
                rc = 1
    finally:
        sys.argv = old_argv
    return rc, so.getvalue(), se.getvalue(), tb


def cli_sub(argv, optimize=False, plugins=False, registry=True, timeout=120, stdout=None, cwd=None, extra_env=None,
            prefix=None):
    """peltool.py as a user runs it.  Returns CompletedProcess (bytes) or None on watchdog."""
    cmd = list(prefix or []) + [env.PY]
    if optimize:
        cmd.append("-O")
    cmd += ["-X", "faulthandler"]
    if plugins:
        cmd += [os.path.join(env.VERIF, "vf", "peltool_boot.py")]
    else:
        cmd += [env.PELTOOL]
    cmd += list(argv)
    try:
        return subprocess.run(cmd, env=env.child_env(registry=registry, extra=extra_env), stdin=subprocess.DEVNULL,
                              stdout=stdout if stdout is not None else subprocess.PIPE, stderr=subprocess.PIPE,
                              timeout=timeout, cwd=cwd)
    except subprocess.TimeoutExpired:
        return None


# ---------------------------------------------------------------------------
# attach helpers
def rebind_everywhere(orig, new, prefixes=("pel", "io_drawer", "udparsers", "srcparsers", "calloutparsers")):
    """Replace every module-level / class-level reference that `is orig` in the
    repository's modules.  Returns the number of rebound sites."""
    n = 0
    for name, mod in list(sys.modules.items()):
        if mod is None or not name.split(".")[0] in prefixes:
            continue
        for attr, val in list(vars(mod).items()):
            if val is orig:
                setattr(mod, attr, new)
                n += 1
            elif isinstance(val, type) and getattr(val, "__module__", None) == name:
                for cattr, cval in list(vars(val).items()):
                    if cval is orig:
                        setattr(val, cattr, new)
                        n += 1
    return n


def import_all_repo_modules():
    import importlib
    for m in ("pel.peltool.peltool", "pel.hexdump", "pel.datastream", "io_drawer.dump", "io_drawer.ilog",
              "io_drawer.trace", "io_drawer.hlog", "udparsers.m2c00.m2c00", "udparsers.oe500.oe500",
              "srcparsers.osrc.osrc", "srcparsers.oe500.oe500", "calloutparsers.ocallouts.ocallouts",
              "pel.hwdiags.parserdata", "pel.peltool.default", "pel.peltool.user_data", "pel.peltool.ext_user_data",
              "pel.peltool.parse_user_data"):
        importlib.import_module(m)


class ReadLog:
    """Deciding monitor for cursor discipline: every movement of a DataStream's cursor is recorded as (start, n).
    Installed as a data descriptor for `index` on the class, so it sees every implementation of reading/skipping
    (get_mem, get_int, inc_index, direct assignment) without depending on method names."""
    def __init__(self):
        self.on = False
        self.events = []       # (stream id, start, n, kind, n)
        self.installed = False

    def install(self):
        if self.installed:
            return
        DS = repo()["DataStream"]
        log = self

        def _get(obj):
            return obj.__dict__.get("_vf_index", 0)

        def _set(obj, value):
            old = obj.__dict__.get("_vf_index")
            obj.__dict__["_vf_index"] = value
            if log.on and old is not None and value != old:
                log.events.append((id(obj), old, value - old, "m", value - old))
        DS.index = property(_get, _set)
        self.installed = True

    def start(self):
        self.events = []
        self.on = True

    def stop(self):
        self.on = False
        return self.events


READLOG = ReadLog()


class Dir:
    """A scratch PEL directory."""
    def __init__(self, root):
        self.root = root
        os.makedirs(root, exist_ok=True)

    def put(self, name, data: bytes):
        p = os.path.join(self.root, name)
        os.makedirs(os.path.dirname(p), exist_ok=True)
        with open(p, "wb") as f:
            f.write(data)
        return p


def scratch_root():
    d = os.environ.get("VERIF_SCRATCH")
    if not d:
        import tempfile
        d = tempfile.mkdtemp(prefix="vf-adhoc-")
    p = os.path.join(d, "p%d" % os.getpid())
    os.makedirs(p, exist_ok=True)
    return p


def harvest_constants(module_names, want):
    """Constants that the code under test itself carries (module / class attributes, containers, literals compiled into its
    functions), filtered by `want(value)`.  Like a fuzzer's dictionary taken from the target: special cases are keyed by
    particular values, and those values are sitting in the code."""
    import importlib
    import types
    found, seen = set(), set()

    def visit(v, depth=0):
        if depth > 6 or id(v) in seen:
            return
        seen.add(id(v))
        if isinstance(v, (str, bytes, int)) and not isinstance(v, bool):
            try:
                if want(v):
                    found.add(v)
            except Exception:
                pass
        elif isinstance(v, dict):
            for k, x in list(v.items())[:5000]:
                visit(k, depth + 1)
                visit(x, depth + 1)
        elif isinstance(v, (list, tuple, set, frozenset)):
            for x in list(v)[:5000]:
                visit(x, depth + 1)
        elif isinstance(v, types.CodeType):
            for x in v.co_consts:
                visit(x, depth + 1)
        elif isinstance(v, (types.FunctionType, types.MethodType)):
            visit(getattr(v, "__code__", None), depth + 1)
            visit(getattr(v, "__defaults__", None), depth + 1)
        elif isinstance(v, (classmethod, staticmethod)):
            visit(v.__func__, depth + 1)
        elif isinstance(v, type):
            if getattr(v, "__module__", "") in module_names:
                for x in list(vars(v).values()):
                    visit(x, depth + 1)
    for name in module_names:
        try:
            mod = importlib.import_module(name)
        except Exception:
            continue
        for k, x in list(vars(mod).items()):
            if k.startswith("__"):
                continue
            if isinstance(x, types.ModuleType):
                continue
            if isinstance(x, (types.FunctionType, type)) and getattr(x, "__module__", name) != name:
                continue
            visit(x)
    return found
