#!/venv/bin/python
"""Entry point of every check:  /venv/bin/python vf/run.py C07 --tier quick

exit 0  held on everything observed (KNOWN-FINDING lines possible)
exit 1  VIOLATION property=<id> replay=<path>
exit 2  INCONCLUSIVE property=<id> reason=...   (never folded into the others)
"""
import argparse
import concurrent.futures as cf
import importlib
import json
import os
import shutil
import subprocess
import sys
import tempfile
import time
from collections import Counter

sys.path.insert(0, os.path.dirname(os.path.dirname(os.path.abspath(__file__))))
from vf import env, findings          # noqa: E402


def ensure_deps():
    if os.path.isdir(os.path.join(env.DEPS, "icontract")):
        return
    subprocess.run([env.PY, os.path.join(env.VERIF, "vf", "setup.py")], check=False)


FAILFAST = {"on": bool(os.environ.get("VERIF_FAILFAST")), "hit": False}   # mutation sweeps only (tools/automut.py)


def run_shard(prop, spec, scratch, timeout):
    if FAILFAST["on"] and FAILFAST["hit"]:
        return {"skipped": True, "spec": spec}
    out = os.path.join(scratch, "shard-%s.json" % spec["shard"])
    cmd = [env.PY]
    if spec.get("optimize"):
        cmd.append("-O")
    specfile = os.path.join(scratch, "spec-%s.json" % spec["shard"])       # not on argv: specs can be large
    with open(specfile, "w") as f:
        json.dump(spec, f)
    cmd += ["-m", "vf.shard", prop, specfile, out]
    e = env.child_env(registry=spec.get("registry", True))
    e["VERIF_SCRATCH"] = scratch
    t0 = time.time()
    try:
        p = subprocess.run(cmd, cwd=env.VERIF, env=e, stdout=subprocess.PIPE,
                           stderr=subprocess.PIPE, timeout=timeout)
    except subprocess.TimeoutExpired:
        return {"failed": "watchdog %ds" % timeout, "spec": spec}
    if p.returncode != 0 or not os.path.exists(out):
        return {"failed": "rc=%s stderr=%s" % (p.returncode, p.stderr.decode("utf-8", "replace")[-3000:]),
                "spec": spec}
    with open(out) as f:
        r = json.load(f)
    os.unlink(out)
    r["wall"] = time.time() - t0
    if r.get("n_violations"):
        FAILFAST["hit"] = True
    return r


def merge(results):
    m = {"counters": Counter(), "sets": {}, "evaluations": 0, "distinct": set(), "samples": [], "distinct_bulk": 0,
         "violations": [], "n_violations": 0, "viol_keys": Counter(), "notes": [], "failed": []}
    for r in results:
        if "skipped" in r:
            continue
        if "failed" in r:
            m["failed"].append({"shard": r["spec"].get("shard"), "why": r["failed"]})
            continue
        m["counters"].update(r["counters"])
        for k, v in r["sets"].items():
            m["sets"].setdefault(k, set()).update(v)
        m["evaluations"] += r["evaluations"]
        m["distinct"].update(r["distinct"])
        m["distinct_bulk"] += r.get("distinct_bulk", 0)
        m["samples"] += r["samples"][:2]
        m["violations"] += r["violations"]
        m["n_violations"] += r["n_violations"]
        m["viol_keys"].update(r["viol_keys"])
        m["notes"] += r["notes"]
        m.setdefault("walls", []).append(round(r.get("wall", 0), 1))
    return m


def main():
    ap = argparse.ArgumentParser()
    ap.add_argument("prop")
    ap.add_argument("--tier", default=os.environ.get("VERIF_TIER") or "quick", choices=["quick", "thorough"])
    ap.add_argument("--replay")
    ap.add_argument("--jobs", type=int, default=env.NPROC)
    args = ap.parse_args()
    prop = args.prop.upper()
    t0 = time.time()
    ensure_deps()
    mod = importlib.import_module("vf.props." + prop.lower())
    seed = env.SEED

    if args.replay:
        with open(args.replay) as f:
            rep = json.load(f)
        specs = [rep["spec"]]
        want_key = rep["key"]
    else:
        specs = mod.plan(args.tier, seed)
        want_key = None
    for i, s in enumerate(specs):
        s.setdefault("shard", i)
        s.setdefault("tier", args.tier)
        s.setdefault("seed", seed)

    scratch = tempfile.mkdtemp(prefix="vf-%s-" % prop.lower())
    timeout = getattr(mod, "WATCHDOG", {}).get(args.tier, 900 if args.tier == "quick" else 4 * 3600)
    try:
        with cf.ThreadPoolExecutor(max_workers=max(1, args.jobs)) as ex:
            results = list(ex.map(lambda s: run_shard(prop, s, scratch, timeout), specs))
    finally:
        shutil.rmtree(scratch, ignore_errors=True)
    m = merge(results)

    if args.replay:
        hit = [v for v in m["violations"] if v["key"] == want_key]
        print("replay: key %s %s (%d violations of this key, %d total)" %
              (want_key, "REPRODUCED" if hit else "not reproduced", m["viol_keys"].get(want_key, 0), m["n_violations"]))
        for v in hit[:1]:
            print(v["msg"])
        return 1 if hit else 0

    # -- classify ------------------------------------------------------
    known = findings.load_known(prop)
    known_hits, unknown = Counter(), Counter()
    for k, n in m["viol_keys"].items():
        if k in known:
            known_hits[k] += n
        else:
            unknown[k] += n

    mins = {}
    if hasattr(mod, "minimums"):
        try:
            mins = mod.minimums(args.tier, m["counters"])      # may adapt to unattached auxiliary attach points
        except TypeError:
            mins = mod.minimums(args.tier)
    unmet = {k: (m["counters"].get(k, 0), v) for k, v in mins.items() if m["counters"].get(k, 0) < v}
    reasons = []
    if m["failed"]:
        reasons.append("shards failed: " + json.dumps(m["failed"])[:1500])
    if unmet:
        reasons.append("monitors under-observed (seen,min): " + json.dumps(unmet))
    ndistinct = len(m["distinct"]) + m["distinct_bulk"]
    if ndistinct < 2 or m["evaluations"] < 1:
        reasons.append("too few cases")

    extra = mod.finish(m, args.tier) if hasattr(mod, "finish") else {}
    cov = {
        "evaluations": m["evaluations"],
        "distinct_nontrivial": ndistinct,
        "rule": mod.RULE,
        "samples": m["samples"][:8],
        "exhaustive": bool(extra.pop("exhaustive", False)),
        "monitor_counters": dict(sorted(m["counters"].items())),
        "distinct_observed": {k: len(v) for k, v in sorted(m["sets"].items())},
        "observed_values": {k: sorted(v)[:60] for k, v in sorted(m["sets"].items())},
        "shards": len(specs),
        "shards_failed": m["failed"],
        "shard_wall_s": m.get("walls", []),
        "known_finding_hits": dict(known_hits),
        "violation_keys": dict(m["viol_keys"]),
        "verdict": "violated" if unknown else ("inconclusive" if reasons else "held"),
        "inconclusive_reasons": reasons,
        "notes": m["notes"][:10],
        "repo": env.REPO,
    }
    cov.update(extra)
    ev = {
        "property_id": prop, "tier": args.tier, "seed": seed, "level": mod.LEVEL,
        "coverage": cov, "assumptions": list(getattr(mod, "ASSUMPTIONS", [])),
        "wall_s": round(time.time() - t0, 2), "violations": int(sum(unknown.values())),
    }
    os.makedirs(env.EVIDENCE, exist_ok=True)
    with open(os.path.join(env.EVIDENCE, prop + ".json"), "w") as f:
        json.dump(ev, f, indent=1, sort_keys=False, default=repr)
        f.write("\n")

    print("%s tier=%s seed=%d evaluations=%d distinct=%d wall=%.1fs" %
          (prop, args.tier, seed, m["evaluations"], ndistinct, time.time() - t0))
    for k, n in sorted(known_hits.items()):
        print("KNOWN-FINDING: property=%s %s [%s] (%d observations)" % (prop, known[k], k, n))
    if unknown:
        os.makedirs(os.path.join(env.REPLAYS, prop), exist_ok=True)
        done = set()
        for v in m["violations"]:
            if v["key"] in known or v["key"] in done:
                continue
            done.add(v["key"])
            path = os.path.join(env.REPLAYS, prop, findings.slug(v["key"]) + ".json")
            with open(path, "w") as f:
                json.dump(v, f, indent=1, default=repr)
            print("VIOLATION property=%s replay=%s" % (prop, path))
            print("  key=%s count=%d: %s" % (v["key"], unknown[v["key"]], v["msg"][:600].replace("\n", "\n  ")))
        for k in unknown:
            if k not in done:      # counted but no witness kept
                print("VIOLATION property=%s replay=%s" % (prop, os.path.join(env.REPLAYS, prop)))
                print("  key=%s count=%d (witness not kept)" % (k, unknown[k]))
        return 1
    if reasons:
        print("INCONCLUSIVE property=%s reason=%s" % (prop, " ; ".join(reasons)[:3000]))
        return 2
    return 0


if __name__ == "__main__":
    sys.exit(main())
