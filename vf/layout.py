"""Installation layouts.  The decoders find their data files (PTE headers, trace string files) next to their own modules.
Besides the plain checkout, packages are commonly installed as *link farms*: the package directory is real, every file in
it is a symbolic link into a store elsewhere (Bazel runfiles, stow, Nix-like stores).  The result of a decode must not
depend on that.  `compare` runs the same cases through the shipped I/O-drawer plug-in in two child processes - plain tree
and link farm - and reports every case whose result differs."""
import hashlib
import json
import os
import shutil
import subprocess

from vf import env, harness


def build_farm(root):
    farm, store = os.path.join(root, "farm", "modules"), os.path.join(root, "store")
    shutil.rmtree(os.path.join(root, "farm"), ignore_errors=True)
    shutil.rmtree(store, ignore_errors=True)
    os.makedirs(store)
    n = 0
    for dp, dns, fns in os.walk(env.MODULES):
        dns[:] = [d for d in dns if d != "__pycache__" and not d.endswith(".egg-info")]
        rel = os.path.relpath(dp, env.MODULES)
        os.makedirs(os.path.join(farm, rel), exist_ok=True)
        for fn in fns:
            src = os.path.join(dp, fn)
            tgt = os.path.join(store, hashlib.sha1(os.path.join(rel, fn).encode()).hexdigest()[:16] + "-" + fn)
            shutil.copyfile(src, tgt)
            os.symlink(tgt, os.path.join(farm, rel, fn))
            n += 1
    return farm, n


def probe(modules, casefile, cwd, ascii_locale=False):
    e = env.child_env(registry=False)
    e["PYTHONPATH"] = os.pathsep.join([modules, env.VERIF])
    e["PYTHONDONTWRITEBYTECODE"] = "1"
    if ascii_locale:
        # the C locale without Python's UTF-8 rescue: text files are read as ASCII (what a minimal service environment or
        # an older interpreter gives); the shipped tables are ASCII, so nothing may change
        for k in [k for k in e if k.startswith("LC_")] + ["LANG", "LANGUAGE", "PYTHONIOENCODING"]:
            e.pop(k, None)
        e.update({"LC_ALL": "C", "PYTHONUTF8": "0", "PYTHONCOERCECLOCALE": "0"})
    p = subprocess.run([env.PY, os.path.join(env.VERIF, "vf", "layout_probe.py"), casefile, cwd], env=e, cwd=cwd,
                       stdout=subprocess.PIPE, stderr=subprocess.PIPE, timeout=600)
    if p.returncode != 0:
        raise RuntimeError("layout probe failed: " + p.stderr.decode("utf-8", "replace")[-1500:])
    return json.loads(p.stdout)


def compare(ctx, prop, cases, what):
    """cases: [(subtype, version, bytes)]"""
    root = harness.scratch_root()
    farm, nfiles = build_farm(root)
    casefile = os.path.join(root, "layout-cases.json")
    with open(casefile, "w") as f:
        json.dump([(s, v, d.hex()) for s, v, d in cases], f)
    cwd = os.path.join(root, "layout-cwd")
    os.makedirs(cwd, exist_ok=True)
    plain = probe(env.MODULES, casefile, cwd)
    linked = probe(farm, casefile, cwd)
    asc = probe(env.MODULES, casefile, cwd, ascii_locale=True)
    if asc.get("text_encoding", "").lower().replace("-", "").replace("_", "") not in ("ascii", "ansix3.41968", "646", "usascii"):
        ctx.note("ASCII-locale probe ran with text encoding %r" % asc.get("text_encoding"))
    else:
        ctx.count("layout.ascii_locale_probes")
    for (s, v, d), a, b in zip(cases, plain["results"], asc["results"]):
        ctx.count("layout.compared_ascii_locale")
        if a != b:
            ctx.violation("%s/ascii-locale" % prop,
                          "%s (sub-type %d, version %d, %d bytes) decodes differently in the C locale (text files read as ASCII): "
                          "default %s ... C locale %s" % (what, s, v, len(d), json.dumps(a)[:300], json.dumps(b)[:300]), data=d[:600])
    if not os.path.realpath(plain["plugin_file"]).startswith(os.path.realpath(env.MODULES)) or \
            not linked["plugin_file"].startswith(farm):
        raise RuntimeError("layout probe imported the wrong tree: %s / %s" % (plain["plugin_file"], linked["plugin_file"]))
    ctx.counters["layout.farm_files"] = nfiles
    for (s, v, d), a, b in zip(cases, plain["results"], linked["results"]):
        ctx.count("layout.compared")
        ctx.case("layout%d/%d/%s" % (s, v, d.hex()), True)
        if "Error" not in a and "RAISED" not in a:
            ctx.count("layout.decoded_in_plain_tree")
        if a != b:
            ka = json.dumps(a)[:300]
            kb = json.dumps(b)[:300]
            ctx.violation("%s/install-layout" % prop,
                          "%s (sub-type %d, version %d, %d bytes) decodes differently when the package files are symbolic "
                          "links into a store: plain tree %s ... link farm %s" % (what, s, v, len(d), ka, kb), data=d[:600])
    shutil.rmtree(os.path.join(root, "farm"), ignore_errors=True)
    shutil.rmtree(os.path.join(root, "store"), ignore_errors=True)
