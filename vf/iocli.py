"""I/O-drawer sections as a user of peltool meets them: inside a PEL (creator M, component 0x2C00, sub-types 72 / 73 / 84,
version = drawer type), decoded by `peltool` in a process of its own whose stdout is a pipe.  The section must show what
the shipped plug-in returns for the payload (the plug-in's decoders themselves are checked against the models by the
other shards of C14 - C16), whatever the mode (-f, -a, -j, -j -x, -P excepted) and whatever characters the payload puts
into the text: `%c` arguments that are quotes, backslashes, line separators, surrogate code points, strings whose
arguments do not fit."""
import json
import os
import shutil
import struct

from vf import dirs, harness, iogen
from vf import iomodels as im
from vf import pelmodel as pm

HOSTILE_CHARS = [0xD800, 0xDFFF, 0xDC80, 0xDCFF, 0x0A, 0x0D, 0x22, 0x5C, 0x85, 0x2028, 0x2029, 0x41, 0x7F, 0x00, 0x10FFFF, 0x110000,
                 0xFFFFFFFF, 0x1F525, 0xE9]
KEYS = {72: "History Log", 73: "ILOG", 84: "Trace"}


def tables(ver):
    from io_drawer.drawer_type import MEX_DRAWER_TYPE, NIMITZ_DRAWER_TYPE
    dt = MEX_DRAWER_TYPE if ver == 1 else NIMITZ_DRAWER_TYPE
    return im.parse_shipped_pte_table(dt.get_header_file_path())[0], im.parse_shipped_string_file(dt.get_trace_string_file_path())


def trace_payload(rng, strings):
    """a FANS/IICS/... buffer whose entries pick shipped strings with conversion specifiers and argument words chosen to
    hurt: characters that need escaping or cannot be encoded, too few / too many words"""
    with_c = [s for s in strings if "%c" in s[1]]
    with_any = [s for s in strings if "%" in s[1]]
    body = b""
    for _ in range(rng.choice([1, 2, 4, 6])):
        r = rng.random()
        h, msg, _loc = rng.choice(with_c) if with_c and r < 0.5 else rng.choice(with_any or strings)
        nspec = msg.replace("%%", "").count("%")
        nargs = nspec if rng.random() < 0.6 else rng.choice([0, 1, nspec + 1, nspec + 3, max(0, nspec - 1)])
        words = [rng.choice(HOSTILE_CHARS) if rng.random() < 0.6 else rng.randrange(0x20, 0x7F) for _ in range(nargs)]
        d = b"".join(struct.pack(">I", w & 0xFFFFFFFF) for w in words)
        body += im.make_trace_entry(rng.randrange(0x10000), rng.randrange(0x10000), im.TYPE_TRACE, h, rng.randrange(2000), d)
    name = rng.choice(im.BUFFER_NAMES).encode()
    return im.make_trace_header(name, 32 + len(body)) + body


def payload_for(rng, sub, ver):
    table, strings = tables(ver)
    if sub == 84:
        return trace_payload(rng, strings) if rng.random() < 0.7 else iogen.gen_trace(rng, strings, nentries=rng.choice([1, 3]), hostile=False)
    if sub == 73:
        return iogen.gen_ilog(rng, table, rng.randrange(1, 12)) or b"\0" * 8
    return bytes(rng.choice([0, 0, 1, 0xFF, rng.randrange(256)]) for _ in range(rng.choice([1, 16, 72, 73, 80, 200])))


def io_pel(rng, u, subs=(72, 73, 84)):
    """(Pel, [(section name, sub, ver, payload)])"""
    secs, meta = [], []
    for k, sub in enumerate(rng.sample(list(subs), rng.randrange(1, len(subs) + 1))):
        ver = rng.choice([1, 2])
        p = payload_for(rng, sub, ver)
        ext = k > 0 and rng.random() < 0.4
        secs.append(pm.sec_ud(rng, u, "M", 0x2C00, sub, ver, p, ext_creator="M" if ext else None, expect_mode="plugin"))
        meta.append(("Extended User Data" if ext else "User Data", sub, ver, p))
    pel = pm.Pel("M", pm.gen_ph(rng, u, "M"), pm.gen_uh(rng, "M"), secs + [pm.gen_mt(rng, u, "M")])
    return pel, meta


def entries_of(doc, base):
    """the top-level entries named `base` / `base N` in document order"""
    return [v for k, v in doc.items() if k == base or (k.startswith(base + " ") and k[len(base) + 1:].isdigit())]


def run(ctx, prop, rng, u, sub, n):
    import udparsers.m2c00.m2c00 as plugin
    root = harness.scratch_root()
    for i in range(n):
        pel, meta = io_pel(rng, u, subs=(sub,) if i % 3 else (72, 73, 84))
        want = []
        for name, s, v, p in meta:
            want.append((name, s, json.loads(plugin.parseUDToJson(s, v, memoryview(p)))))
        d = os.path.join(root, "iocli%d" % i)
        out = os.path.join(d + "-out")
        for x in (d, out):
            shutil.rmtree(x, ignore_errors=True)
            os.makedirs(x)
        path = os.path.join(d, "2025010112000000_%08X" % pel.eid)
        with open(path, "wb") as f:
            f.write(pel.encode())
        modes = [["-f", path, "-E"], ["-p", d, "-a", "-E"], ["-p", d, "-j", "-E", "-o", out], ["-p", d, "-j", "-x", "-E", "-o", out],
                 ["-p", d, "-i", "%08X" % pel.eid]]
        for argv in rng.sample(modes, 3):
            for fn in os.listdir(out):
                os.unlink(os.path.join(out, fn))
            ctx.current = {"argv": argv[-4:], "sections": [(nm, s, v, p[:300]) for nm, s, v, p in meta]}
            ctx.case(prop + "iocli" + repr(argv[2:]) + pel.encode().hex(), True)
            p = harness.cli_sub(argv, plugins=True, registry=False)
            ctx.count("peltool.io_section_runs")
            label = " ".join(a for a in argv if not a.startswith(root))
            if p is None:
                ctx.violation("%s/peltool/no-result" % prop, "peltool %s did not finish within the watchdog" % label)
                continue
            text = p.stdout.decode("utf-8", "replace")
            if "-j" in argv:
                fn = [f for f in os.listdir(out) if dirs.is_json_name(f, os.path.basename(path), pel.eid)]
                text = open(os.path.join(out, fn[0]), encoding="utf-8", errors="replace").read() if fn else ""
            try:
                doc = json.loads(text)
            except ValueError as e:
                ctx.violation("%s/peltool/not-json" % prop, "peltool %s on a PEL with I/O-drawer sections %s: the output is not one JSON "
                              "document (%s); rc=%d stdout starts %r stderr ends %r" %
                              (label, [(nm, s) for nm, s, v, _ in meta], e, p.returncode, text[:160], p.stderr.decode("utf-8", "replace")[-300:]))
                continue
            if isinstance(doc, list):
                doc = doc[0] if doc else {}
            for base in ("User Data", "Extended User Data"):
                got = entries_of(doc, base)
                exp = [(s, w) for nm, s, w in want if nm == base]
                if len(got) != len(exp):
                    ctx.violation("%s/peltool/section-count" % prop, "peltool %s shows %d %s entries, the PEL has %d" % (label, len(got), base, len(exp)))
                    continue
                for g, (s, w) in zip(got, exp):
                    ctx.count("peltool.io_sections_compared")
                    shown = {k: v for k, v in g.items() if k not in ("Section Version", "Sub-section type", "Created by")}
                    if shown != w:
                        ctx.violation("%s/peltool/section" % prop if s == sub else "%s/peltool/other-section" % prop,
                                      "peltool %s shows the sub-type %d section as %s, the plug-in returns %s for its payload" %
                                      (label, s, json.dumps(shown)[:400], json.dumps(w)[:400]))
        shutil.rmtree(d, ignore_errors=True)
        shutil.rmtree(out, ignore_errors=True)
