"""Regenerates the static fixture files under vf/fixtures (they are committed;
run this only when changing them):  /venv/bin/python vf/mkfixtures.py"""
import json
import os

F = os.path.join(os.path.dirname(os.path.abspath(__file__)), "fixtures")


def w(p, s):
    os.makedirs(os.path.dirname(p), exist_ok=True)
    with open(p, "w") as f:
        f.write(s)


UD = '''from vf import fxlog
fxlog.imported(__name__)


def parseUDToJson(subtype, version, data):
    return fxlog.ud(__name__, subtype, version, data)
'''
SRC = '''from vf import fxlog
fxlog.imported(__name__)


def parseSRCToJson(refcode, word2, word3, word4, word5, word6, word7, word8, word9):
    return fxlog.src(__name__, refcode, word2, word3, word4, word5, word6, word7, word8, word9)
'''
CO = '''from vf import fxlog
fxlog.imported(__name__)


def getMaintProcDesc(procedure):
    return fxlog.callout(__name__, procedure)
'''

UD_OK = ['ofa00', 'ofb00', 'bfa00', 'mfa00', 'xfa00', 'h4158', 'o00ab']
SRC_OK = ['bsrc', 'msrc', 'xsrc', 'ofx00', 'ofy00']
CO_OK = ['bcallouts', 'mcallouts']


def main():
    for n in UD_OK:
        w(f'{F}/plugins/udparsers/{n}/__init__.py', '')
        w(f'{F}/plugins/udparsers/{n}/{n}.py', UD)
    # "installed" but cannot be imported (ImportError at import time)
    w(f'{F}/plugins/udparsers/ofc00/__init__.py', '')
    w(f'{F}/plugins/udparsers/ofc00/ofc00.py',
      'from vf import fxlog\nfxlog.imported(__name__)\nimport vf_module_that_does_not_exist  # noqa\n')
    # import raises something else
    w(f'{F}/plugins/udparsers/ofd00/__init__.py', '')
    w(f'{F}/plugins/udparsers/ofd00/ofd00.py',
      'from vf import fxlog\nfxlog.imported(__name__)\nraise RuntimeError("fx module broken at import")\n')
    for n in SRC_OK:
        w(f'{F}/plugins/srcparsers/{n}/__init__.py', '')
        w(f'{F}/plugins/srcparsers/{n}/{n}.py', SRC)
    for n in CO_OK:
        w(f'{F}/plugins/calloutparsers/{n}/__init__.py', '')
        w(f'{F}/plugins/calloutparsers/{n}/{n}.py', CO)
    w(f'{F}/registry/pel_registry/__init__.py', '''"""Fixture stand-in for the pel_registry distribution (message registry + component id files)."""
import os


def get_registry_path():
    return os.path.join(os.path.dirname(__file__), "message_registry.json")
''')
    reg = {"PELs": [
        {"Name": "fx.InOrder",
         "SRC": {"ReasonCode": "0x2030",
                 "Words6To9": {"6": {"Description": "first word", "AdditionalDataPropSource": "FX_W6"},
                               "8": {"Description": 'third "word": {x}', "AdditionalDataPropSource": "FX_W8"}}},
         "Documentation": {"Description": "d", "Message": "In order %1 then %2.",
                           "MessageArgSources": ["SRCWord6", "SRCWord8"]}},
        {"Name": "fx.Reversed", "SRC": {"ReasonCode": "0x2031", "Words6To9": {}},
         "Documentation": {"Message": "Reverse %2 then %1", "MessageArgSources": ["SRCWord6", "SRCWord7"]}},
        {"Name": "fx.Repeated", "SRC": {"ReasonCode": "0x2032"},
         "Documentation": {"Message": "Twice %1 and again %1, then %3 %2",
                           "MessageArgSources": ["SRCWord9", "SRCWord6", "SRCWord7"]}},
        {"Name": "fx.Braces",
         "SRC": {"ReasonCode": "0x2033",
                 "Words6To9": {"7": {"AdditionalDataPropSource": "FX_NODESC"},
                               "9": {"Description": "last", "AdditionalDataPropSource": "FX_W9"}}},
         "Documentation": {"Message": "Braces {x} {} {0} stay, value %1", "MessageArgSources": ["SRCWord7"]}},
        {"Name": "fx.NoArgs", "SRC": {"ReasonCode": "0x2034"},
         "Documentation": {"Message": 'No arguments: 100%1 literal "quoted": text'}},
        {"Name": "fx.Power",
         "SRC": {"ReasonCode": "0x2030", "Type": "11",
                 "Words6To9": {"6": {"Description": "pw", "AdditionalDataPropSource": "FX_PW6"}}},
         "Documentation": {"Message": "Power fault %1", "MessageArgSources": ["SRCWord6"]}},
        {"Name": "fx.Hostboot", "SRC": {"ReasonCode": "0x2035", "Type": "BC"},
         "Documentation": {"Message": "Hostboot says %1 %2 %3 %4",
                           "MessageArgSources": ["SRCWord6", "SRCWord7", "SRCWord8", "SRCWord9"]}},
        {"Name": "fx.LowWords", "SRC": {"ReasonCode": "0x2037"},
         "Documentation": {"Message": "Low words %1 %2 %3 and %4",
                           "MessageArgSources": ["SRCWord5", "SRCWord2", "SRCWord3", "SRCWord6"]}},
        {"Name": "fx.NoReason", "SRC": {"Type": "BD"}, "Documentation": {"Message": "never"}},
        {"Name": "fx.EmptyMsg", "SRC": {"ReasonCode": "0x2036"}, "Documentation": {"Message": ""}},
        {"Name": "fx.Shadow", "SRC": {"ReasonCode": "0x2030"},
         "Documentation": {"Message": "shadowed duplicate, must never show"}},
    ]}
    w(f'{F}/registry/pel_registry/message_registry.json', json.dumps(reg, indent=1))
    w(f'{F}/registry/pel_registry/O_component_ids.json', json.dumps(
        {"1000": "bmc common function", "2000": "bmc error logging", "E500": "hw diags (fx)",
         "ABCD": 'fx "quoted": name {', "00AB": "fx low id", "FA00": "fx plugin a"}, indent=1))
    w(f'{F}/registry/pel_registry/B_component_ids.json', json.dumps(
        {"0100": "hb fx comp", "FA00": "hb plugin a"}, indent=1))
    # chip data for hwdiags
    full = {"model_ec": {"id": "20da0020", "type": "proc", "desc": "P10 2.0 (fx)"},
            "attn_types": {"1": "CHIP_CS", "2": "UNIT_CS", "3": "RECOVERABLE", "4": "SP_ATTN", "5": "HOST_ATTN"},
            "signatures": {"abcd": ["FX_FIR_ONE", {"0": "bit zero desc", "5": 'bit five "desc": {', "255": "last bit"}],
                           "00ff": ["FX_FIR_TWO", {"1": "one"}], "8000": ["FX_NO_BITS", {}]},
            "registers": {"abcdef": ["FX_REG_ONE", {"0": "8000000000001234", "3": "00000000DEADBEEF"}],
                          "000001": ["FX_REG_WITH_A_VERY_LONG_NAME_EXCEEDING_25", {"0": "1"}]}}
    w(f'{F}/chipdata_full/p10_20.json', json.dumps(full, indent=1))
    full2 = {"model_ec": {"id": "60d20020", "type": "ocmb", "desc": "Explorer (fx)"}, "attn_types": {"1": "CS"},
             "signatures": {"1234": ["EXP_FIR", {"7": "seven"}]}, "registers": {"123456": ["EXP_REG", {"2": "0801"}]}}
    w(f'{F}/chipdata_full/explorer_20.json', json.dumps(full2, indent=1))
    partial = {"model_ec": {"id": "20da0020"}, "signatures": {"abcd": ["FX_FIR_ONE", {}]},
               "registers": {"abcdef": ["FX_REG_ONE", {}]}}
    w(f'{F}/chipdata_partial/p10_20.json', json.dumps(partial, indent=1))
    partial2 = {"model_ec": {"id": "60d20020", "type": "ocmb"}, "attn_types": {}, "signatures": {}, "registers": {}}
    w(f'{F}/chipdata_partial/explorer_20.json', json.dumps(partial2, indent=1))


if __name__ == "__main__":
    main()
