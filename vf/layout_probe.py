"""Child of vf/layout.py: decodes the cases of a JSON file through the shipped I/O-drawer plug-in, with whatever
`modules` tree PYTHONPATH names.  Prints one JSON list."""
import json
import os
import sys


def main():
    cases = json.load(open(sys.argv[1]))
    os.chdir(sys.argv[2])                       # a current directory that holds none of the data files
    import udparsers.m2c00.m2c00 as plugin
    import io_drawer.drawer_type as dt
    import locale
    out = {"plugin_file": plugin.__file__, "drawer_type_file": dt.__file__, "results": [],
           "text_encoding": locale.getpreferredencoding(False)}
    for sub, ver, hx in cases:
        try:
            out["results"].append(json.loads(plugin.parseUDToJson(sub, ver, memoryview(bytes.fromhex(hx)))))
        except BaseException as e:      # noqa
            out["results"].append({"RAISED": repr(e)})
    sys.stdout.write(json.dumps(out, ensure_ascii=True))


main()
