"""Scratch PEL directories and their model."""
import os
import shutil

from vf import gen, harness
from vf import pelmodel as pm

EXTS = ["", ".pel", ".PEL", ".txt", ".bin", ".pel.bak"]


class Entry:
    __slots__ = ("name", "pel", "data", "path", "junk")

    def __init__(self, name, pel, data, junk=False):
        self.name, self.pel, self.data, self.junk = name, pel, data, junk
        self.path = None

    @property
    def ext(self):
        return os.path.splitext(self.name)[1]


def gen_names(rng, n, bmc_style=False, eids=None):
    """n distinct file names: mixed case, digits, several dots, with/without extension, prefixes of each other.
    No leading dot, ASCII only (DESIGN C08 soundness guard)."""
    names = set()
    out = []
    stems = []
    i = 0
    while len(out) < n:
        if bmc_style and eids is not None:
            stem = "%04d%02d%02d%02d%02d%02d%02d_%08X" % (rng.randrange(2000, 2030), rng.randrange(1, 13), rng.randrange(1, 29),
                                                        rng.randrange(24), rng.randrange(60), rng.randrange(60),
                                                        rng.randrange(100), eids[len(out)])
            name = stem + rng.choice(["", "", ".pel"])
        else:
            r = rng.random()
            if stems and r < 0.25:
                stem = rng.choice(stems) + rng.choice(["", "0", "a", "_1", ".x", "A"])
            elif r < 0.5:
                stem = "".join(rng.choice("abcXYZ019_-") for _ in range(rng.randrange(1, 9)))
            else:
                stem = "%s%03d" % (rng.choice(["pel", "PEL", "Log", "log", "a", "B", "Z", "_"]), rng.randrange(1000))
            stems.append(stem)
            name = stem + rng.choice(EXTS)
        i += 1
        if name in names or name.startswith(".") or not name:
            continue
        names.add(name)
        out.append(name)
    return out


SEV_FLAG_MIX = [(0x40, 0xA000), (0x20, 0x2000), (0x00, 0x0000), (0x00, 0x8000), (0x10, 0x0000), (0x51, 0xA000),
                (0x51, 0x4000), (0x71, 0x6000), (0x60, 0x2000), (0x02, 0x2000), (0x01, 0x0000), (0x21, 0xA000),
                (0x40, 0x4000), (0x00, 0xC000), (0x44, 0x0000), (0x50, 0x2800)]


def gen_dir_model(rng, u, n, reg=(), bmc_style=False, small=True, fixtures=True, with_ps=0.8, distinct_src=False):
    """n well-formed PELs with distinct entry ids / PLIDs / BMC ids, spread over selection classes."""
    pels, eids = [], set()
    while len(pels) < n:
        sev, flags = rng.choice(SEV_FLAG_MIX) if rng.random() < 0.8 else (rng.randrange(256), rng.randrange(0x10000))
        kinds = [("SS", 3), ("EH", 5), ("MT", 5), ("UD", 5), ("LP", 2), ("HEX", 2)] if small else None
        pel = gen.gen_pel(rng, u, reg=reg, sev=sev, flags=flags, nopt=rng.choice([1, 2, 3, 4]) if small else None,
                          kinds=kinds, primary=rng.random() < with_ps, fixtures=fixtures,
                          creator=rng.choice("OOOBMH"))
        if pel.eid in eids or pel.plid in eids or pel.bmcid in eids:
            continue
        if len(pel.sections) > 1 and pel.sections[0].sid == b"PS" and rng.random() < 0.25:
            # a primary SRC that is not the third section of the log
            ps = pel.sections.pop(0)
            pel.sections.insert(rng.randrange(1, len(pel.sections) + 1), ps)
        eids.update((pel.eid, pel.plid, pel.bmcid))
        pels.append(pel)
    if pels and rng.random() < 0.4:
        # ids at the ends of the range: 0 and 0xFFFFFFFF are ids like any other (a test such as `if eid:` on a number, or a
        # -1 sentinel, singles them out)
        v, f = rng.choice([0, 0, 0xFFFFFFFF]), rng.choice(["eid", "eid", "plid"])
        if v not in eids:
            rng.choice(pels).ph[f] = v
            eids.add(v)
    names = gen_names(rng, n, bmc_style, [p.eid for p in pels])
    return [Entry(nm, p, p.encode()) for nm, p in zip(names, pels)]


class PelDir:
    def __init__(self, root):
        self.root = root
        if os.path.exists(root):
            shutil.rmtree(root)
        os.makedirs(root)
        self.entries = []

    def add(self, e: Entry):
        e.path = os.path.join(self.root, e.name)
        os.makedirs(os.path.dirname(e.path), exist_ok=True)
        with open(e.path, "wb") as f:
            f.write(e.data)
        self.entries.append(e)
        return e

    def extend(self, entries):
        for e in entries:
            self.add(e)
        return self

    def good(self):
        return [e for e in self.entries if not e.junk and "/" not in e.name]

    def remove(self):
        shutil.rmtree(self.root, ignore_errors=True)


def snapshot(root):
    """(relative path -> (type, size, sha1)) of a whole tree."""
    import hashlib
    snap = {}
    for dp, dns, fns in os.walk(root):
        rel = os.path.relpath(dp, root)
        snap[rel + "/"] = ("dir", 0, "")
        for dn in dns:
            if os.path.islink(os.path.join(dp, dn)):
                snap[os.path.normpath(os.path.join(rel, dn))] = ("link", 0, os.readlink(os.path.join(dp, dn)))
        for fn in fns:
            p = os.path.join(dp, fn)
            if os.path.islink(p):
                snap[os.path.normpath(os.path.join(rel, fn))] = ("link", 0, os.readlink(p))
                continue
            import stat as _stat
            mode = os.lstat(p).st_mode
            if not _stat.S_ISREG(mode):
                snap[os.path.normpath(os.path.join(rel, fn))] = ("special", 0, oct(_stat.S_IFMT(mode)))
                continue
            with open(p, "rb") as f:
                b = f.read()
            snap[os.path.normpath(os.path.join(rel, fn))] = ("file", len(b), hashlib.sha1(b).hexdigest())
    return snap


def is_json_name(fn, pel_name, eid):
    """<pel file>.<entry id in hex, any zero padding>.json"""
    if not (fn.startswith(pel_name + ".") and fn.endswith(".json")):
        return False
    mid = fn[len(pel_name) + 1:-5]
    try:
        return bool(mid) and all(c in "0123456789abcdefABCDEF" for c in mid) and int(mid, 16) == eid
    except ValueError:
        return False


def symlink_entries(rng, ents, store, frac=0.3):
    """turn some of the PEL files into symbolic links to regular files kept in `store` (an archive directory elsewhere): a
    link to a file is a file of the directory for every mode.  Returns the number of links made."""
    import os
    os.makedirs(store, exist_ok=True)
    n = 0
    for e in ents:
        if e.path and os.path.isfile(e.path) and not os.path.islink(e.path) and "/" not in e.name and rng.random() < frac:
            tgt = os.path.join(store, "kept_%d_%s" % (n, e.name))
            os.replace(e.path, tgt)
            os.symlink(tgt, e.path)
            n += 1
    return n
