"""Generators for I/O-drawer inputs: PTE tables, ILOG data, trace string files,
trace buffers, history-log field tables, whole dumps."""
import os
import struct

from vf import iomodels as im

HEX = "0123456789ABCDEF"
MSGS = ["Power on complete", "PS%d - Faults Cleared", "level = %c%c", "value 0x%02X and %d", "pct 100%% done", "%s string arg",
        "three %d %d %d", "P1 IO Bay VRM in \"N-Mode\"", "  padded message  ", "bad spec %q here", "%x %X %o", "trailing %",
        "%5d|%-4d|", "quote \" only", "four %d %d %d %d", "five %d %d %d %d %d", "%c", "no args at all",
        # a literal percent sign directly followed by letters that would be a C length modifier + conversion
        "PWM now %d%%total", "load %d%%time-averaged", "%d%%zone %d", "%d%%high limit, %d%%low limit", "%d%%peak", "100%%lld done %d"]


def gen_pattern(rng, base=None):
    if base is not None and rng.random() < 0.6:      # overlap with an earlier pattern
        p = list(base)
        for _ in range(rng.randrange(1, 4)):
            p[rng.randrange(len(p))] = "*"
        return "".join(p)
    if rng.random() < 0.06:
        # patterns at the ends of the value range / catch-alls: they match the PTEs 0xFFFFFFFF, 0x00000000, everything
        return rng.choice(["********", "FFFF****", "F*******", "FFFFFFFF", "0000****", "00000000", "*******F", "FFFFFFF*"])
    p = [rng.choice(HEX) for _ in range(8)]
    if rng.random() < 0.5:
        p[0] = "E"                                      # error class
        if rng.random() < 0.5:
            p[3] = rng.choice("0123") if rng.random() < 0.7 else rng.choice("4567CDEF")   # reported bit off / on in the pattern
    for i in range(8):
        if rng.random() < 0.2:
            p[i] = "*"
    s = "".join(p)
    if rng.random() < 0.15:
        s = s.lower()
    if rng.random() < 0.04:
        # eight characters that are not all hex digits or '*' (but that a lenient number parser would accept): never a match
        k = rng.randrange(1, 7)
        s = rng.choice([" " + s[1:], s[:7] + " ", "0x" + s[2:], "0X" + s[2:], s[:k] + "_" + s[k + 1:], "\t" + s[1:]])
        return s
    if rng.random() < 0.06 and "*" not in s:
        # not exactly eight characters: such an entry can never match a PTE (e.g. a typo that lost the leading zero)
        s = rng.choice([s[1:] if s[0] == "0" else s[:7], "0" + s, "0" + s[1:7], s + "0"])
    return s


def gen_table(rng, n=None):
    n = rng.choice([0, 1, 2, 5, 10, 20, 40]) if n is None else n
    table = []
    for _ in range(n):
        base = rng.choice(table)[0].upper() if table and rng.random() < 0.4 else None
        pat = gen_pattern(rng, base)
        msg = rng.choice(MSGS)
        if rng.random() < 0.05:
            msg = rng.choice(["", "   ", " "])      # an entry without description text is an entry: its description is empty
        k = rng.choice([0, 0, 1, 1, 2, 2, 3, 4, 5])
        params = tuple(rng.choice([1, 2, 3, 4, 1, 2, 3, 4, 0, 5, 9]) for _ in range(k))
        table.append((pat, msg, params))
        if rng.random() < 0.15 and "*" not in pat[:4] and pat[0].upper() == "E" and pat[3] in "012389AB":
            # the same pattern with the reported flag set, as its own (later) entry: the flag-cleared one still comes first
            flagged = pat[:3] + "%X" % (int(pat[3], 16) | 4) + pat[4:]
            lit = "".join(c if c != "*" else rng.choice(HEX) for c in flagged)
            table.append((lit if rng.random() < 0.7 else flagged, rng.choice(MSGS), tuple(rng.choice([1, 2, 3, 4]) for _ in range(rng.randrange(3)))))
    return table


def model_table(table):
    """what the decoder must understand from the written table: messages stripped"""
    return [(p, m.strip(), ps) for p, m, ps in table]


def pte_for(rng, table):
    r = rng.random()
    if table and r < 0.7:
        pat = rng.choice(table)[0].upper()
        s = "".join(c if c != "*" else rng.choice(HEX) for c in pat)
        try:
            v = int(s, 16) & 0xFFFFFFFF          # (also what a lenient parser makes of ' 1040000', '0x0200AB', 'E208_690')
        except ValueError:
            v = int("".join(c if c in "0123456789abcdefABCDEF" else "0" for c in s), 16)
        rr = rng.random()
        if rr < 0.3:
            v |= 0x00040000                    # reported flag on
        elif rr < 0.4:
            v = (v & 0x0FFFFFFF) | 0xE0000000 | 0x00040000
        elif rr < 0.5:
            v ^= 1 << rng.randrange(32)
        return v
    if r < 0.8:
        return rng.choice([0, 1, 0xE0040000, 0xE0000000, 0xFFFFFFFF, 0x00040000, 0xEFFFFFFF, 0xE0FBFFFF])
    return rng.randrange(1 << 32)


def gen_ilog(rng, table, n=None):
    n = rng.randrange(0, 30) if n is None else n
    out = b""
    for _ in range(n):
        r = rng.random()
        if r < 0.08:
            out += b"\0" * 8
            continue
        ts = rng.choice([0, 1, 59, 60, 3599, 3600, 0xFFFE, 0xFFFF, 65000]) if rng.random() < 0.4 else rng.randrange(0x10000)
        seq = rng.choice([0, 1, 0xFFFF, rng.randrange(0x10000)])
        pte = pte_for(rng, table)
        if not out and rng.random() < 0.12:
            pte = rng.choice([0xFFFFFFFF, 0xFFFFFFFF, 0, 0xFFFFFFFE, 0x80000000, 0x7FFFFFFF])     # extreme value as the FIRST entry
        if rng.random() < 0.05:
            ts, seq = 0, 0        # zero timestamp and sequence with a non-zero PTE is still an entry
        out += struct.pack(">HHI", ts, seq, pte)
    if rng.random() < 0.4:
        out += bytes(rng.randrange(256) for _ in range(rng.randrange(1, 8)))      # trailing partial entry
    return out


# -- trace -------------------------------------------------------------------
TRACE_MSGS = ["I> ADT7470: trace_level = %u", "no args", "two %d %d", "five %d %d %d %d %d", "six %d %d %d %d %d %d", "hex 0x%08X",
              "str %s", "chr %c", "pct %% only", "bad %q", "E> fail rc=%d at %x", "a||b inside message %d", "  spaced  ",
              "supply %u at %u%%load", "%u%%high limit, %u%%low limit", "%u%%peak, %u%%avg", "%d%%total %d%%zone", "duty %u%%time"]


def gen_strings(rng, n=None):
    n = rng.choice([0, 1, 3, 8, 15, 30]) if n is None else n
    out = []
    for k in range(n):
        r = rng.random()
        if out and r < 0.2:
            h = rng.choice(out)[0]                                           # duplicate hash
        elif out and r < 0.45:
            h = rng.choice(out)[0] % 100000 + 100000 * rng.randrange(0, 40000)   # partial collision
        elif r < 0.53:
            # a hash that does not fit into 32 bits (the file format is decimal text): never an exact match, but it takes
            # part in the modulo-100000 rule like any other
            base = rng.choice(out)[0] if out and rng.random() < 0.7 else rng.randrange(1 << 32)
            h = base % 100000 + 100000 * rng.randrange(42950, 10 ** 7)
        elif r < 0.56:
            h = rng.choice([0, 99999, 100000, 0xFFFFFFFF, 0x80000000])
        else:
            h = rng.randrange(1 << 32)
        out.append((h, rng.choice(TRACE_MSGS), "file%d.cpp(%d)" % (k % 5, rng.randrange(1, 2000))))
        if len(out) >= 3 and rng.random() < 0.1:
            out.append(rng.choice(out[:-1]))          # the very same line once more (the LAST candidate decides a partial match)
    return out


def model_strings(strings):
    return [(h, m.strip(), l.strip()) for h, m, l in strings]


def hash_for(rng, strings):
    r = rng.random()
    if strings and r < 0.5:
        h = rng.choice(strings)[0]
        if h < (1 << 32):
            return h
        return h % 100000 + 100000 * rng.randrange(0, 42949)      # a wide hash can only be met modulo 100000
    if strings and r < 0.8:
        h = rng.choice(strings)[0] % 100000 + 100000 * rng.randrange(0, 42949)
        return h & 0xFFFFFFFF
    return rng.randrange(1 << 32)


def gen_entry(rng, strings, fault=None):
    tag = rng.choice([im.TYPE_TRACE, im.TYPE_TRACE, im.TYPE_BIN, 0, 0xFFFF])
    n = rng.choice([0, 1, 2, 3, 4, 5, 7, 8, 12, 16, 19, 20, 21, 24, 40]) if rng.random() < 0.8 else rng.randrange(0, 1025)
    d = bytes(rng.randrange(256) for _ in range(n)) if rng.random() < 0.6 else struct.pack(">I", rng.randrange(100)) * (n // 4) + b"\x7f" * (n % 4)
    tbh = rng.choice([0, 59, 3600, 0xFFFF, 0xFFFE, rng.randrange(0x10000)])
    e = im.make_trace_entry(tbh, rng.randrange(0x10000), tag, hash_for(rng, strings), rng.choice([0, 1, 99999, 100000, rng.randrange(1 << 32)]), d)
    return e


def gen_trace(rng, strings, name=None, nentries=None, hostile=True):
    """one trace buffer (header + entries), possibly with a fault at the end"""
    nentries = rng.choice([0, 1, 2, 3, 5, 9]) if nentries is None else nentries
    standalone = name is None
    name = name or rng.choice(im.BUFFER_NAMES + ["XYZ", "FANS    ", "fa\xffns"]).encode("latin-1")
    body = b"".join(gen_entry(rng, strings) for _ in range(nentries))
    tail = b""
    fault = rng.choice([None, None, None, "oversize", "trailer", "truncated", "garbage", "len1025"]) if hostile else None
    if fault == "oversize":
        tail = struct.pack(">HHHHII", 1, 2, rng.choice([1025, 2000, 0xFFFF]), im.TYPE_TRACE, 5, 6) + b"\0" * 40
    elif fault == "trailer":
        tail = im.make_trace_entry(1, 2, im.TYPE_TRACE, hash_for(rng, strings), 7, bytes(rng.randrange(256) for _ in range(rng.randrange(0, 12))),
                                   bad_trailer=rng.choice([1, -1, 4, -4, 1000]))
        tail += gen_entry(rng, strings)        # a perfectly good entry after the bad one must not be shown
    elif fault == "truncated":
        e = gen_entry(rng, strings)
        tail = e[:rng.randrange(1, len(e))]
    elif fault == "garbage":
        tail = bytes(rng.randrange(256) for _ in range(rng.randrange(1, 40)))
    elif fault == "len1025":
        d = bytes(1025)
        tail = struct.pack(">HHHHII", 1, 2, 1025, im.TYPE_BIN, 5, 6) + d + b"\0\0\0" + struct.pack(">I", 16 + 1028 + 4)
    total = 32 + len(body) + len(tail)
    r = rng.random()
    if r < 0.6:
        size = total
    elif r < 0.7:
        size = 32 + len(body)
    elif r < 0.8:
        size = rng.choice([0, 31, 32, 33, total + 100, 0xFFFFFFFF])
    else:
        size = rng.randrange(0, total + 1)
    hb = (0x20, 0x01, 0x42)
    if standalone and rng.random() < 0.3:
        # header length / time flag / endian flag are stored, not interpreted: a stand-alone buffer is decoded the same
        # way whatever they hold (inside a dump the four start bytes are what makes a header recognisable, so there they stay)
        hb = rng.choice([(0x40, 0x01, 0x42), (0x10, 0x01, 0x4C), (0, 0, 0), (0xFF, 0xFF, 0xFF), (0x1F, 0x01, 0x42), (0x21, 0x01, 0x42),
                         (rng.randrange(256), rng.randrange(256), rng.randrange(256))])
    hdr = im.make_trace_header(name, size, ver=rng.choice([2] * 12 + [0, 255]), wrap=rng.choice([0, 1, rng.randrange(1 << 32)]),
                               next_free=rng.randrange(1 << 32), hdr=hb, res=rng.choice([0, 0xFFFFFFFF]))
    return hdr + body + tail


# -- history log -------------------------------------------------------------------
def gen_fields(rng, n=None):
    n = rng.choice([0, 1, 2, 5, 12, 38, 80, 120]) if n is None else n
    dup = rng.random() < 0.2
    odd = rng.random() < 0.15
    out = [("hl_field_%d_%s" % (k if not (dup and k % 3 == 2) else k - 1, rng.choice(["a", "retries", "x_y"]) if not dup else "a"),
            rng.choice([1, 2])) for k in range(n)]
    if odd and out:
        # characters that str.splitlines() (but not line-by-line file reading) treats as line ends, inside a name
        k = rng.randrange(len(out))
        out[k] = (out[k][0][:6] + rng.choice(ODD_SEPARATORS) + out[k][0][6:], out[k][1])
    if out and rng.random() < 0.15:
        # names with characters that mean something to C or to a careless scanner - inside the quotes they are name text
        k = rng.randrange(len(out))
        out[k] = (out[k][0][:5] + rng.choice(["//", "/*", " // x", "#", "{", "}", ",", ";", "  ", "\\", "%d"]) + out[k][0][5:], out[k][1])
    return out


def record_len(fields):
    return sum(s for _, s in fields)


# -- dumps -------------------------------------------------------------------
def gen_dump(rng, table, strings):
    """ILOG bytes followed by 0..6 trace buffers in any order; names may also occur inside the ILOG data."""
    ilog = gen_ilog(rng, table, rng.choice([0, 0, 1, 3, 10]))
    r = rng.random()
    if r < 0.15:
        ilog += rng.choice(im.BUFFER_NAMES).encode() + b"\0\0\0\0"              # a name without the header start
    elif r < 0.32:
        # header start followed by four letters that are NOT one of the six buffer names (other components' names): data
        ilog += im.HDR_START + rng.choice(OTHER_NAMES).encode() + b"\0" * 4
    if rng.random() < 0.25:
        # bytes that read as text: control / Latin-1 characters each followed by hex digits (a dump tool that prints its
        # character column raw puts them into the text file as they are)
        blob = b"".join(bytes([rng.choice(sorted(im.RAW_TEXT))]) + rng.choice([b"BEEF", b"12", b"0a 1B", b"CAFE 0123", b"7"])
                        for _ in range(rng.randrange(2, 9)))
        ilog += blob + b"\0" * ((-len(blob)) % 8)
    names = rng.sample(im.BUFFER_NAMES, rng.choice([0, 1, 2, 3, 6]))
    bufs = b""
    if names and rng.random() < 0.2:
        ilog += im.HDR_START + bytes(rng.randrange(256) for _ in range(rng.choice([0, 1, 2, 3, 4])))   # e.g. a PTE equal to 0x02200142
    for nm in names:
        bufs += gen_trace(rng, strings, name=nm.encode(), nentries=rng.choice([0, 1, 2, 4]), hostile=rng.random() < 0.4)
    if names and rng.random() < 0.15:
        # the same buffer name a second time (e.g. a stale copy): only its FIRST occurrence is a recognised header,
        # the later copy is data of whatever region it falls into
        bufs += gen_trace(rng, strings, name=rng.choice(names).encode(), nentries=rng.choice([0, 1, 2]), hostile=False)
    if rng.random() < 0.1 and names:
        ilog = b""                                                               # header at offset 0
    return ilog + bufs


OTHER_NAMES = ["NOPE", "THRM", "TEMP", "VOLT", "PWRS", "FANC", "SENS", "LEDS", "I2CM", "I2CS", "VPDS", "CONF", "BOOT", "MAIN", "DIAG", "TRAC",
               "DBUG", "HLOG", "ILOG", "CORE", "INIT", "UART", "GPIO", "FPGA", "VRMS", "PSUS", "BPLN", "MEXS", "NIMZ", "DRWR", "CECS", "SPCN",
               "IICX", "POWS", "FAN0", "ERRS", "INFo", "fans", "Iics", "BMCS", "HOST", "PCIE", "CXPS", "CABL", "SLOT", "EEPR", "SMBS", "ADCS"]
ODD_SEPARATORS = ["\x0b", "\x0c", "\x1c", "\x1d", "\x1e", "\x85", "\u2028", "\u2029"]


def rewrite_same_stat(path, mutate_text):
    """rewrite a text file with content of the SAME byte length and restore its time stamps (what `cp -p`, rsync -t or an
    archive extraction of another build can leave): anything remembered for the path must not survive this"""
    import os
    st = os.stat(path)
    with open(path, encoding="utf-8") as f:
        old = f.read()
    new = mutate_text(old)
    if new is None or len(new.encode("utf-8")) != len(old.encode("utf-8")) or new == old:
        return False
    with open(path, "w", encoding="utf-8") as f:
        f.write(new)
    os.utime(path, ns=(st.st_atime_ns, st.st_mtime_ns))
    return True


def view_of(rng, d: bytes):
    """the bytes as the decoders get them from a PEL: often a memoryview WINDOW onto a larger buffer"""
    r = rng.random()
    if r < 0.35:
        pre = bytes(rng.randrange(256) for _ in range(rng.randrange(1, 40)))
        post = bytes(rng.randrange(256) for _ in range(rng.randrange(0, 40)))
        if rng.random() < 0.5:      # the surrounding bytes contain perfectly good headers / entries of their own
            pre += im.HDR_START + b"FANS" + bytes(24)
            post = im.HDR_START + b"POWR" + bytes(24) + post
        buf = pre + d + post
        if rng.random() < 0.4:
            buf = bytearray(buf)              # a writable buffer (what hexdump.parse() returns for a dump file)
        return memoryview(buf)[len(pre):len(pre) + len(d)]
    if r < 0.6:
        return memoryview(d)
    if r < 0.8:
        return memoryview(bytearray(d))       # writable view: its slices cannot be hashed
    return d


def pkey(p):
    """dictionary key for a path given as str, bytes or os.PathLike"""
    import os
    return os.path.abspath(os.fsdecode(p))


class _PathLike:
    def __init__(self, p):
        self._p = p

    def __fspath__(self):
        return self._p


def path_of(rng, path: str):
    """the same file named the ways open() accepts: str (mostly), pathlib.Path, bytes, another os.PathLike"""
    import os
    import pathlib
    r = rng.random()
    if r < 0.7:
        return path
    if r < 0.82:
        return pathlib.Path(path)
    if r < 0.91:
        return os.fsencode(path)
    return _PathLike(path)
