"""Per-shard recorder: what the monitors observed.

Monitors never raise into the code under test (peltool has catch-all
barriers that would swallow the exception); they *record* here and return.
"""
import hashlib
import json
from collections import Counter

MAX_VIOL_KEPT = 40        # witnesses kept per shard (all are counted)
MAX_SAMPLES = 6


def _h(blob) -> str:
    if isinstance(blob, str):
        blob = blob.encode("utf-8", "surrogatepass")
    elif not isinstance(blob, (bytes, bytearray, memoryview)):
        blob = json.dumps(blob, sort_keys=True, default=repr).encode()
    return hashlib.sha1(bytes(blob)).hexdigest()[:14]


def jsonable(o, depth=0):
    if isinstance(o, (bytes, bytearray, memoryview)):
        b = bytes(o)
        if len(b) > 6000:
            return {"hex_head": b[:3000].hex(), "len": len(b), "sha1": hashlib.sha1(b).hexdigest()}
        return {"hex": b.hex()}
    if isinstance(o, dict):
        return {str(k): jsonable(v, depth + 1) for k, v in o.items()}
    if isinstance(o, (list, tuple, set, frozenset)):
        return [jsonable(v, depth + 1) for v in o]
    if isinstance(o, (str, int, float, bool)) or o is None:
        if isinstance(o, str) and len(o) > 8000:
            return o[:8000] + "...[%d chars]" % len(o)
        return o
    return repr(o)


class Ctx:
    def __init__(self, prop: str, spec: dict):
        self.prop = prop
        self.spec = spec
        self.counters = Counter()
        self.sets = {}                 # name -> set of small hashables (merged by union)
        self.evaluations = 0
        self.distinct = set()          # hashes of distinct non-trivial cases
        self.distinct_bulk = 0         # distinct-by-construction cases of an enumeration (counted, not hashed)
        self.samples = []
        self.violations = []           # kept witnesses
        self.n_violations = 0
        self.viol_keys = Counter()     # key -> count
        self.current = None            # description of the case being run (for witnesses)
        self.notes = []

    # -- cases ---------------------------------------------------------
    def case(self, blob, nontrivial=True, sample=None):
        """Count one executed case; `blob` identifies it for distinctness."""
        self.evaluations += 1
        if nontrivial:
            self.distinct.add(_h(blob))
        if sample is not None and len(self.samples) < MAX_SAMPLES:
            self.samples.append(jsonable(sample))

    def bulk(self, evaluations, distinct_nontrivial):
        """Account for an enumerated block whose points are distinct by construction."""
        self.evaluations += evaluations
        self.distinct_bulk += distinct_nontrivial

    def count(self, name, n=1):
        self.counters[name] += n

    def see(self, setname, value):
        self.sets.setdefault(setname, set()).add(value)

    # -- violations ----------------------------------------------------
    def violation(self, key: str, msg: str, **witness):
        """key = mechanism key (stable; never contains input hashes/random values)."""
        self.n_violations += 1
        self.viol_keys[key] += 1
        kept_same = sum(1 for v in self.violations if v["key"] == key)
        if len(self.violations) < MAX_VIOL_KEPT and kept_same < 4:
            w = dict(witness)
            if self.current is not None and "case" not in w:
                w["case"] = self.current
            self.violations.append({"key": key, "msg": msg[:2000], "witness": jsonable(w),
                                    "spec": self.spec, "property": self.prop})

    def note(self, s):
        if len(self.notes) < 20:
            self.notes.append(str(s)[:500])

    # -- (de)serialisation --------------------------------------------
    def dump(self) -> dict:
        return {
            "counters": dict(self.counters),
            "sets": {k: sorted(map(str, v))[:5000] for k, v in self.sets.items()},
            "evaluations": self.evaluations,
            "distinct": sorted(self.distinct),
            "distinct_bulk": self.distinct_bulk,
            "samples": self.samples,
            "violations": self.violations,
            "n_violations": self.n_violations,
            "viol_keys": dict(self.viol_keys),
            "notes": self.notes,
        }
