"""Parsers for what peltool prints (used by the relational CLI oracles)."""
import json

from vf.pelmodel import parse_dump, as_hex

BEGIN = "-------------- PEL Begin  ----------------"
END = "-------------- PEL End    ----------------"


class BadOutput(Exception):
    pass


def parse_list(out):
    """-l / --plid / --src output -> [(entry id int, summary dict)] in printed order."""
    try:
        pairs = json.loads(out, object_pairs_hook=list)
    except ValueError as e:
        raise BadOutput("list output is not JSON: %s" % e)
    if not isinstance(pairs, list) or any(not (isinstance(p, tuple) and len(p) == 2) for p in pairs):
        raise BadOutput("list output is not a JSON object")
    res = []
    for k, v in pairs:
        try:
            eid = as_hex(k)
        except ValueError:
            raise BadOutput("list key %r is not an entry id" % (k,))
        res.append((eid, dict(v) if isinstance(v, list) else v))
    return res


def parse_all(out):
    try:
        docs = json.loads(out)
    except ValueError as e:
        raise BadOutput("-a output is not JSON: %s" % e)
    if not isinstance(docs, list):
        raise BadOutput("-a output is not a JSON array")
    return docs


def doc_eid(doc):
    try:
        return as_hex(doc["Private Header"]["Entry Id"])
    except Exception:
        raise BadOutput("document without Private Header/Entry Id")


def parse_count(out):
    try:
        d = json.loads(out)
        return int(d["Number of PELs found"])
    except Exception as e:
        raise BadOutput("count output malformed: %s" % e)


def parse_hex(out):
    """--hex output -> list of byte strings, one per delimited dump."""
    lines = out.split("\n")
    if lines and lines[-1] == "":
        lines.pop()
    res, cur = [], None
    for ln in lines:
        if ln == BEGIN:
            if cur is not None:
                raise BadOutput("nested PEL Begin")
            cur = []
        elif ln == END:
            if cur is None:
                raise BadOutput("PEL End without Begin")
            try:
                res.append(parse_dump(cur))
            except ValueError as e:
                raise BadOutput("hex dump does not parse: %s" % e)
            cur = None
        else:
            if cur is None:
                raise BadOutput("text outside PEL Begin/End markers: %r" % ln[:80])
            cur.append(ln)
    if cur is not None:
        raise BadOutput("unterminated dump")
    return res
