"""Parsers for what peltool prints (used by the relational CLI oracles)."""
import json

from vf.pelmodel import parse_dump, as_hex

BEGIN = "-------------- PEL Begin  ----------------"
END = "-------------- PEL End    ----------------"


class BadOutput(Exception):
    pass


def parse_list(out):
    """-l / --plid / --src output -> [(entry id int, summary dict)] in printed order."""
    try:
        pairs = json.loads(out, object_pairs_hook=list)
    except ValueError as e:
        raise BadOutput("list output is not JSON: %s" % e)
    if not isinstance(pairs, list) or any(not (isinstance(p, tuple) and len(p) == 2) for p in pairs):
        raise BadOutput("list output is not a JSON object")
    res = []
    for k, v in pairs:
        try:
            eid = as_hex(k)
        except ValueError:
            raise BadOutput("list key %r is not an entry id" % (k,))
        res.append((eid, dict(v) if isinstance(v, list) else v))
    return res


def parse_all(out):
    try:
        docs = json.loads(out)
    except ValueError as e:
        raise BadOutput("-a output is not JSON: %s" % e)
    if not isinstance(docs, list):
        raise BadOutput("-a output is not a JSON array")
    return docs


def doc_eid(doc):
    try:
        return as_hex(doc["Private Header"]["Entry Id"])
    except Exception:
        raise BadOutput("document without Private Header/Entry Id")


def parse_count(out):
    try:
        d = json.loads(out)
        return int(d["Number of PELs found"])
    except Exception as e:
        raise BadOutput("count output malformed: %s" % e)


def parse_hex(out):
    """--hex output -> list of byte strings, one per delimited dump."""
    lines = out.split("\n")
    if lines and lines[-1] == "":
        lines.pop()
    res, cur = [], None
    for ln in lines:
        if ln == BEGIN:
            if cur is not None:
                raise BadOutput("nested PEL Begin")
            cur = []
        elif ln == END:
            if cur is None:
                raise BadOutput("PEL End without Begin")
            try:
                res.append(parse_dump(cur))
            except ValueError as e:
                raise BadOutput("hex dump does not parse: %s" % e)
            cur = None
        else:
            if cur is None:
                raise BadOutput("text outside PEL Begin/End markers: %r" % ln[:80])
            cur.append(ln)
    if cur is not None:
        raise BadOutput("unterminated dump")
    return res


# ---------------------------------------------------------------------------
# Options that a command line may carry WITHOUT changing what the chosen mode does.  peltool picks one mode by a fixed
# precedence; every mode option of lower precedence given on the same line is ignored, and --clean / --output-dir only
# mean something to the two modes that write or delete (--file, --json).
PRECEDENCE = ["-f", "-j", "-i", "--bmc-id", "--plid", "--src", "--src-exclude", "-l", "-n", "-a", "-d", "-D"]
LONG = {"-f": "--file", "-j": "--json", "-i": "--id", "-l": "--list", "-n": "--show-pel-count", "-a": "--all-pels",
        "-d": "--delete", "-D": "--delete-all"}


def dominated_options(rng, mode, eid=0x50000001, plid=0x50000001, src="BD", excl=None, outdir=None, k=None,
                      allow_clean=True):
    """Extra arguments for a command line whose mode option is `mode`: lower-precedence mode options (with plausible
    values) and, for the display modes, --clean / --output-dir.  The result of the run must be that of `mode` alone."""
    lower = PRECEDENCE[PRECEDENCE.index(mode) + 1:]
    if excl is None and "--src-exclude" in lower:
        lower = [x for x in lower if x != "--src-exclude"]
    picks = rng.sample(lower, min(len(lower), k if k is not None else rng.choice([1, 1, 2, 3])))
    extra = []
    for o in picks:
        name = LONG[o] if o in LONG and rng.random() < 0.3 else o
        if o == "-i":
            extra += [name, "%08X" % eid]
        elif o == "--bmc-id":
            extra += [name, str(eid & 0xFFFF)]
        elif o == "--plid":
            extra += [name, "%08X" % plid]
        elif o == "--src":
            extra += [name, src]
        elif o == "--src-exclude":
            extra += [name, excl]
        elif o == "-d":
            extra += [name, "%08X" % eid]
        else:
            extra.append(name)
    if allow_clean and mode not in ("-f", "-j") and rng.random() < 0.5:
        extra.append(rng.choice(["-c", "--clean"]))
    if mode != "-j" and outdir and rng.random() < 0.3:
        extra += ["-o", outdir]
    rng.shuffle(picks)
    return extra
