"""Runs the repository's peltool.py as __main__ with the fixture parser
packages 'installed' (appended to the real packages' search paths)."""
import os
import runpy
import sys

HERE = os.path.dirname(os.path.abspath(__file__))
sys.path.insert(0, os.path.dirname(HERE))
from vf import env, harness      # noqa: E402

env.setup_path(registry=env.REGISTRY_DIR in os.environ.get("PYTHONPATH", ""))
harness.plugins_on()
sys.argv = [env.PELTOOL] + sys.argv[1:]
runpy.run_path(env.PELTOOL, run_name="__main__")
