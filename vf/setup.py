"""Offline install of the contract libraries next to the repository's interpreter."""
import os
import subprocess
import sys

HERE = os.path.dirname(os.path.dirname(os.path.abspath(__file__)))
DEPS = os.path.join(HERE, ".deps")
PY = os.environ.get("VERIF_PY", "/venv/bin/python")


def main():
    if os.path.isdir(os.path.join(DEPS, "icontract")):
        print("deps present")
        return 0
    r = subprocess.run([PY, "-m", "pip", "install", "--no-index", "--find-links", "/opt/veriftools/wheels",
                        "--target", DEPS, "--quiet", "icontract"],
                       env=dict(os.environ, PIP_NO_INDEX="1"))
    print("installed icontract into", DEPS, "rc", r.returncode)
    return r.returncode


if __name__ == "__main__":
    sys.exit(main())
