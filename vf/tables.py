"""Frozen copy of the published name tables (pel_values.py at the pinned commit 006b315).
The oracles use these, never the live tables: a change to a live table entry that exists
here is a change of the published meaning; entries added later are accepted."""


"""
Creator IDs
"""
creatorIDs = {"B": "Hostboot", "C": "HMC", "H": "PHYP", "K": "Sapphire",
              "L": "Partition FW", "M": "I/O Drawer", "O": "BMC",
              "P": "PowerNV", "S": "SLIC",  "T": "OCC"}

"""
Section Names
"""
sectionNames = {
    "PH": "Private Header",
    "UH": "User Header",
    "PS": "Primary SRC",
    "SS": "Secondary SRC",
    "EH": "Extended User Header",
    "MT": "Failing MTMS",
    "DH": "Dump Location",
    "SW": "Firmware Error",
    "LP": "Impacted Partition",
    "LR": "Logical Resource",
    "HM": "HMC ID",
    "EP": "EPOW",
    "IE": "IO Event",
    "MI": "MFG Info",
    "CH": "Call Home",
    "UD": "User Data",
    "EI": "Env Info",
    "ED": "Extended User Data"}

"""
The possible values for the subsystem field  in the User Header.
"""
subsystemValues = {
    0x10: "Processor",
    0x11: "Processor FRU",
    0x12: "Processor Chip Cache",
    0x13: "Processor Unit (CPU)",
    0x14: "Processor Bus Controller",

    0x20: "Memory ",
    0x21: "Memory Controller",
    0x22: "Memory Bus Interface",
    0x23: "Memory DIMM",
    0x24: "Memory Card/FRU",
    0x25: "External Cache",

    0x30: "I/O",
    0x31: "I/O Hub",
    0x32: "I/O Bridge",
    0x33: "I/O bus interface",
    0x34: "I/O Processor",
    0x35: "SMA Hub",
    0x38: "PCI Bridge Chip",

    0x40: "I/O Adapter",
    0x41: "I/O Adapter Communication",
    0x46: "I/O Device",
    0x47: "I/O Device Disk",
    0x4C: "I/O External Peripheral",
    0x4D: "I/O External Peripheral Local Work Station",
    0x4E: "I/O Storage Mezza Expansion",

    0x50: "CEC Hardware",
    0x51: "CEC Hardware - Service Processor A",
    0x52: "CEC Hardware - Service Processor B",
    0x53: "CEC Hardware - Node Controller",
    0x55: "CEC Hardware - VPD Interface",
    0x56: "CEC Hardware - I2C Devices",
    0x57: "CEC Hardware - CEC Chip Interface",
    0x58: "CEC Hardware - Clock",
    0x59: "CEC Hardware - Operator Panel",
    0x5A: "CEC Hardware - Time-Of-Day Hardware",
    0x5B: "CEC Hardware - Memory Device",
    0x5C: "CEC Hardware - Hypervisor<->Service Processor Interface",
    0x5D: "CEC Hardware - Service Network",
    0x5E: "CEC Hardware - Hostboot-Service Processor Interface",

    0x60: "Power/Cooling",
    0x61: "Power Supply",
    0x62: "Power Control Hardware",
    0x63: "Fan (AMD)",
    0x64: "Digital Power Supply",

    0x70: "Miscellaneous",
    0x71: "HMC & Hardware",
    0x72: "Test Tool",
    0x73: "Removable Media",
    0x74: "Multiple Subsystems",
    0x75: "Not Applicable",
    0x76: "Miscellaneous",

    0x7A: "Hypervisor lost communication with service processor",
    0x7B: "Service processor lost communication with Hypervisor",
    0x7C: "Service processor lost communication with HMC",
    0x7D: "HMC lost communication with logical partition",
    0x7E: "HMC lost communication with BPA",
    0x7F: "HMC lost communication with another HMC",

    0x80: "Platform Firmware",
    0x81: "Service Processor Firmware",
    0x82: "System Hypervisor Firmware",
    0x83: "Partition Firmware",
    0x84: "SLIC Firmware",
    0x85: "System Power Control Network Firmware",
    0x86: "Bulk Power Firmware Side A",
    0x87: "HMC Code",
    0x88: "Bulk Power Firmware Side B",
    0x89: "Virtual Service Processor Firmware",
    0x8A: "HostBoot",
    0x8B: "OCC",
    0x8D: "BMC Firmware",

    0x90: "Software",
    0x91: "Operating System software",
    0x92: "XPF software",
    0x93: "Application software",

    0xA0: "External Environment",
    0xA1: "Input Power Source (ac)",
    0xA2: "Room Ambient Temperature",
    0xA3: "User Error",
    0xA4: "Corrosion"}


"""
The possible values for the Event Scope field in the User Header.
"""
eventScopeValues = {
    0x01: "Single Partition",
    0x02: "Multiple Partitions",
    0x03: "Entire Platform",
    0x04: "Multiple Platforms"}


"""
The possible values for the Event Type field in the User Header.
"""
eventTypeValues = {
    0x00: "Not Applicable",
    0x01: "Miscellaneous, Informational Only",
    0x02: "Tracing Event",
    0x08: "Dump Notification",
    0x30: "Customer environmental problem back to normal"}


"""
The possible values for the severity field in the User Header.
"""
severityValues = {
    0x00: "Informational Event",

    0x10: "Recovered Error",
    0x20: "Predictive Error",
    0x21: "Predictive Error, Degraded Performance",
    0x22: "Predictive Error, Correctable",
    0x23: "Predictive Error, Correctable, Degraded",
    0x24: "Predictive Error, Redundancy Lost",

    0x40: "Unrecoverable Error",
    0x41: "Unrecoverable Error, Degraded Performance",
    0x44: "Unrecoverable Error, Loss of Redundancy",
    0x45: "Unrecoverable, Loss of Redundancy + Performance",
    0x48: "Unrecoverable Error, Loss of Function",

    0x50: "Critical Error, Scope of Failure unknown",
    0x51: "Critical Error, System Termination",
    0x52: "Critical Error, System Failure likely or imminent",
    0x53: "Critical Error, Partition(s) Termination",
    0x54: "Critical Error, Partition(s) Failure likely or imminent",

    0x60: "Error detected during diagnostic test",
    0x61: "Diagostic error, resource w/incorrect results",

    0x71: "Symptom Recovered",
    0x72: "Symptom Predictive",
    0x74: "Symptom Unrecoverable",
    0x75: "Symptom Critical",
    0x76: "Symptom Diag Err"}


"""
The possible severity groups with there distinct starting hex digit. 
"""
severityGroupValues = {
    'Informational': 0, 
    'Recovered':     1, 
    'Predictive':    2, 
    'Unrecoverable': 4, 
    'Critical':      5, 
    'Diagnostic':    6, 
    'Symptom':       7}


"""
The possible values for the Action Flags field in the User Header.
"""
actionFlagsValues = {
    0x8000: "Service Action Required",
    0x4000: "Event not customer viewable",
    0x2000: "Report Externally",
    0x1000: "Do Not Report To Hypervisor",
    0x0800: "HMC Call Home",
    0x0400: "Isolation Incomplete, further analysis required",
    0x0100: "Service Processor Call Home Required",
    0x0020: "Heartbeat Call Home Event"}

"""
Map for transmission states
"""
transmissionStates = {
    0: "Not Sent",
    1: "Rejected",
    2: "Sent",
    3: "Acked"}

"""
Map for Callout Failing Component Types
"""
failingComponentType = {
    0x10: "Normal Hardware FRU",
    0x20: "Code FRU",
    0x30: "Configuration error, configuration procedure required",
    0x40: "Maintenance Procedure Required",
    0x90: "External FRU",
    0xA0: "External Code FRU",
    0xB0: "Tool FRU",
    0xC0: "Symbolic FRU",
    0xE0: "Symbolic FRU with trusted location code"}

"""
The possible values for the Callout Priority field in the SRC.
"""
calloutPriorityValues = {
    0x48: "Mandatory, replace all with this type as a unit",
    0x4D: "Medium Priority",
    0x41: "Medium Priority A, replace these as a group",
    0x42: "Medium Priority B, replace these as a group",
    0x43: "Medium Priority C, replace these as a group",
    0x4C: "Lowest priority replacement"}
