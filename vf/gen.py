"""Workload generators: well-formed PELs (domain of DESIGN §3.1), directories."""
import json
from vf import pelmodel as pm
from vf import fxlog, tables

UNKNOWN_IDS = [b"ID", b"PE", b"MR", b"\0\0", b"\xff\xff", b"XX", b"ph", b"uh", b"Ps", b"U\0", b"  ", b"\"\\"]
UD_FX_BEHAVIOURS = {"fx_ok": b"K", "fx_raise": b"R", "fx_none": b"N", "fx_importerror": b"I", "fx_list": b"L",
                    "fx_hostile": b"S", "fx_keyerror": b"E", "fx_release_raise": b"X", "fx_release_none": b"Y",
                    "fx_release_ok": b"Z", "fx_raise_empty": b"M", "fx_raise_multiline": b"T"}
# (creator, comp) pairs served by fixture modules (vf/fixtures/plugins/udparsers)
FX_UD = [("O", 0xFA00), ("O", 0xFB00), ("B", 0xFA00), ("M", 0xFA00), ("X", 0xFA00), ("H", 0x4158), ("O", 0x00AB),
         # neighbours of the BMC's own component 0x2000 (built-in formats): ordinary components with their own parsers
         ("O", 0x2001), ("O", 0x20FF), ("O", 0x2100), ("O", 0x1FFF)]


def nul_pad(b: bytes, mult=4, extra=0) -> bytes:
    return b + b"\0" * (((-len(b)) % mult) + extra)


def gen_user_section(rng, u, creator, ext=False, flavor=None, fixtures=True, plugins_enabled=True):
    """A UD (or ED when ext) section and its display obligations."""
    flavors = ["bmc_json", "bmc_text", "bmc_other", "noparser", "noparser", "bmc_badjson"]
    if fixtures:
        flavors += ["fx_ok", "fx_ok", "fx_raise", "fx_none", "fx_importerror", "fx_list", "fx_hostile", "fx_keyerror",
                    "fx_badimport", "fx_brokenimport", "fx_release_raise", "fx_release_none", "fx_release_ok",
                    "fx_raise_empty", "fx_raise_multiline"]
    flavor = flavor or rng.choice(flavors)
    ver, sub = rng.randrange(256), rng.randrange(256)
    if ext:
        eff = None      # chosen below
    if flavor.startswith("bmc_") and not ext and creator != "O":
        flavor = "noparser"
    ext_creator = None
    expect = []
    clobbered = []
    mode = "dump"
    if flavor == "bmc_json":
        eff, comp, sub = "O", 0x2000, 1
        doc = pm.json_payload(rng, u) if rng.random() < 0.85 else rng.choice(
            [[1, "two", {"3": 4}], "just a string", 17, ["x\": y"], True])
        clobbered = []
        if isinstance(doc, dict) and rng.random() < 0.06:
            # a member named like one of the section's own header fields: the stored JSON value is what must appear
            k = rng.choice(["Section Version", "Sub-section type", "Created by"])
            doc[k] = rng.choice(["2.7-rc1", 99, "phosphor-fan-monitor", ["x"]])
            clobbered.append(k)
        if isinstance(doc, dict) and rng.random() < 0.06:
            doc["big " + u.token(5)] = (u.token(8) + " ") * rng.choice([500, 1000, 4000])      # payloads of 4 .. 36 KiB
        txt = json.dumps(doc, ensure_ascii=rng.random() < 0.5, indent=rng.choice([None, None, 2]))
        payload = nul_pad(txt.encode("utf-8"), 4, rng.choice([0, 0, 4]))
        mode = "json"
        expect = [("*", "contains", doc)] if isinstance(doc, dict) else [("Data", "eq", doc)]
    elif flavor == "bmc_badjson":
        # marked as the built-in JSON format but not JSON (valid UTF-8 text): nothing decodes it - the text is hex-dumped
        eff, comp, sub = "O", 0x2000, 1
        txt = rng.choice(["not json {", '{"a": }', "[1, 2", '{"a": 1} trailing', "{'single': 'quotes'}", "NaN,", '"unterminated',
                          "<xml/>", "key=value", '{"a": 1,}', "\u00e9t\u00e9 {", "{" * 50]) + u.token(6)
        if rng.random() < 0.35:
            # a NUL in the MIDDLE of the text (two terminated records written back to back, a terminator in front): the
            # bytes behind it are payload like any other, and the whole is not JSON
            first = json.dumps(rng.choice([{"seq": 1, "id": u.token(6)}, [1, 2], "s" + u.token(5), 7]))
            txt = rng.choice([first + "\0" + json.dumps({"seq": 2, "rc": "0x" + u.token(8)}),
                              first + "\0\0\0\0" + u.token(7), "\0" + first, first + " \0 " + first])
        payload = nul_pad(txt.encode("utf-8"), 4, rng.choice([0, 0, 4]))
        mode = "none"
        expect = [("Data", "dumpws", payload)]
    elif flavor == "bmc_text":
        eff, comp, sub = "O", 0x2000, 3
        lines = pm.text_payload(rng, u)
        if rng.random() < 0.06:
            lines += [u.token(8) + " line %d" % k for k in range(rng.choice([300, 900, 3000]))]       # 4 .. 50 KiB of text
        if lines and rng.random() < 0.08:
            k = rng.randrange(len(lines))       # a NUL inside a line is a character like any other unprintable one
            lines[k] = lines[k] + "\0" + u.token(6)
        raw = "\n".join(lines) + rng.choice(["", "\n"])
        payload = nul_pad(raw.encode("utf-8"), 4, rng.choice([0, 0, 4]))
        if not payload:
            payload = b"\0" * 4       # payload lengths start at 1 (DESIGN 3.1)
        mode = "text"
        expect = [("Data", "textlines", pm.text_reference(raw))]
    elif flavor == "bmc_other":
        eff, comp = "O", 0x2000
        sub = rng.choice([0, 2, 2, 4, 5, 0x80, 0xFF])
        payload = pm.gen_payload(rng, u)
        r = rng.random()
        if r < 0.2:
            # bytes that LOOK like padding or a trailer (zero fill plus a small big-endian count, as BMC CBOR data ends;
            # all-zero payloads): they are payload like any others and belong in the dump
            pad = rng.randrange(4)
            payload = payload[:rng.choice([1, 5, 13, 40])] + b"\0" * pad + (rng.choice([pad, pad, 0, 3])).to_bytes(4, "big")
            payload = payload[len(payload) % 4:] if rng.random() < 0.5 else payload
        elif r < 0.25:
            payload = b"\0" * rng.choice([4, 8, 16, 64])
    elif flavor == "noparser":
        eff = creator if not ext else rng.choice("OBHMX?z")
        comp = rng.choice([0x0100, 0x3000, 0x2002, 0x20FE, 0x2080, 0x1FFE, 0xFFFF, 0, rng.randrange(0x10000)])
        if comp in (0x2002, 0x20FE, 0x2080, 0x1FFE) and rng.random() < 0.6:
            sub = rng.choice([1, 3, 2])         # JSON / text / CBOR sub-types mean something for BMC component 0x2000 only
        while (eff, comp) in FX_UD or (eff.lower(), comp) in (("o", 0xE500), ("m", 0x2C00), ("o", 0x2000),
                                                                ("o", 0xFC00), ("o", 0xFD00)):
            comp = rng.randrange(0x10000)
        payload = pm.gen_payload(rng, u)
    elif flavor in UD_FX_BEHAVIOURS:
        eff, comp = rng.choice(FX_UD)
        if not ext and eff != creator:
            cands = [c for c in FX_UD if c[0] == creator]
            if not cands:
                return gen_user_section(rng, u, creator, ext, "noparser", fixtures, plugins_enabled)
            eff, comp = rng.choice(cands)
        payload = UD_FX_BEHAVIOURS[flavor] + pm.gen_payload(rng, u)
        if comp in (0x2001, 0x20FF, 0x2100, 0x1FFF) and rng.random() < 0.5:
            sub = rng.choice([1, 3, 2])         # the sub-types that mean JSON / text / CBOR for component 0x2000 only
        if plugins_enabled:
            name = (eff.lower() + "%04X" % comp).lower()
            module = "udparsers.%s.%s" % (name, name)
            if flavor in ("fx_ok", "fx_release_ok"):
                mode = "plugin"
                expect = [("*", "contains", fxlog.ud_result(module, sub, ver, payload))]
            elif flavor == "fx_list":
                mode = "plugin"
                expect = [("Data", "eq", ["fx list", len(payload), payload[:8].hex()])]
            elif flavor == "fx_hostile":
                mode = "plugin"
                expect = [("*", "contains", {"FX Hostile": 'va"l: {ue}\\ ": x', 'k"ey: ': [1, '":', {"a\": ": "b"}]})]
            else:   # raise / none / importerror-while-parsing / keyerror: error note + raw dump
                mode = "dump"
                expect = [("Error", "present", None)]
    elif flavor in ("fx_badimport", "fx_brokenimport"):
        eff, comp = "O", 0xFC00 if flavor == "fx_badimport" else 0xFD00
        if not ext and creator != "O":
            return gen_user_section(rng, u, creator, ext, "noparser", fixtures, plugins_enabled)
        payload = pm.gen_payload(rng, u)
        if flavor == "fx_brokenimport" and plugins_enabled:
            expect = [("Error", "present", None)]
    else:
        raise ValueError(flavor)
    if ext:
        ext_creator = eff
    if not plugins_enabled and mode == "plugin":
        mode = "dump"
    s = pm.sec_ud(rng, u, creator, comp, sub, ver, payload, ext_creator=ext_creator,
                  expect_mode="dump" if mode == "dump" else mode)
    if flavor == "bmc_json" and clobbered:
        s.expect = [e for e in s.expect if e[0] not in clobbered]
    s.expect += expect
    s.m["flavor"] = flavor
    s.note = flavor
    return s


KIND_WEIGHTS = [("SS", 8), ("EH", 8), ("MT", 8), ("LP", 8), ("UD", 16), ("ED", 8), ("HEX", 10), ("UNK", 8), ("PS", 6)]


def gen_pel(rng, u, nopt=None, creator=None, sev=None, flags=None, fixtures=True, plugins_enabled=True,
            primary=None, reg=None, kinds=None, hostile_ids=True):
    if creator is None:
        creator = rng.choice(pm.KNOWN_CREATORS) if rng.random() < 0.85 else rng.choice("XQz?#9")
        if rng.random() < 0.35:
            creator = "O"
    ph = pm.gen_ph(rng, u, creator)
    uh = pm.gen_uh(rng, creator, sev, flags)
    if nopt is None:
        nopt = rng.choice([0, 1, 2, 3, 4, 5, 6, 8, 12]) if rng.random() < 0.9 else rng.randrange(13, 40)
    secs = []
    if primary is None:
        primary = rng.random() < 0.7
    if primary and nopt > 0:
        secs.append(pm.gen_src(rng, u, True, creator, reg=reg))
    pool = kinds or KIND_WEIGHTS
    names, weights = [k for k, _ in pool], [w for _, w in pool]
    while len(secs) < nopt:
        k = rng.choices(names, weights)[0]
        if k == "PS":
            if any(s.sid == b"PS" for s in secs):
                continue
            secs.append(pm.gen_src(rng, u, True, creator, reg=reg))
        elif k == "SS":
            secs.append(pm.gen_src(rng, u, False, creator, reg=reg))
        elif k == "EH":
            secs.append(pm.gen_eh(rng, u, creator))
        elif k == "MT":
            secs.append(pm.gen_mt(rng, u, creator))
        elif k == "LP":
            secs.append(pm.gen_lp(rng, u, creator))
        elif k == "UD":
            secs.append(gen_user_section(rng, u, creator, False, None, fixtures, plugins_enabled))
        elif k == "ED":
            secs.append(gen_user_section(rng, u, creator, True, None, fixtures, plugins_enabled))
        elif k == "HEX":
            secs.append(pm.sec_generic(rng, u, rng.choice(pm.HEXDUMP_KINDS)))
        else:
            while True:
                sid = rng.choice(UNKNOWN_IDS) if (hostile_ids and rng.random() < 0.5) else bytes([rng.randrange(256), rng.randrange(256)])
                if hostile_ids and secs and secs[-1].kind == "SRC" and secs[-1].m["callouts"] and rng.random() < 0.6:
                    # directly behind an SRC with callouts: an unknown section whose id reads like a callout substructure
                    sid = rng.choice([b"ID", b"PE", b"MR"])
                if sid.decode("latin-1") not in tables.sectionNames:
                    break
            secs.append(pm.sec_generic(rng, u, sid))
    if secs and rng.random() < 0.12:
        # byte-identical duplicates (same type, same content) - adjacent or separated; each still gets its own entry
        dup = rng.choice([s for s in secs if s.sid != b"PS"] or secs)
        if dup.sid != b"PS":
            for _ in range(rng.choice([1, 1, 2])):
                secs.insert(rng.randrange(len(secs) + 1), dup)
            if dup.name == "Unknown" and rng.random() < 0.5:
                # another unknown id with the very same version / sub-type / component / payload
                twin = pm.Sec(bytes([dup.sid[0] ^ 1, dup.sid[1]]), dup.ver, dup.sub, dup.comp, dup.body, dup.kind, dict(dup.m))
                twin.expect, twin.ident, twin.payload = dup.expect, dup.ident, dup.payload
                if twin.name == "Unknown":
                    secs.append(twin)
        if primary_first(secs):
            pass
    return pm.Pel(creator, ph, uh, secs)


def primary_first(secs):
    """keep a primary SRC, when it was generated first, in first position"""
    for i, s in enumerate(secs):
        if s.sid == b"PS" and i != 0:
            return False
    return True
