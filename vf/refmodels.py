"""Small independent executable models, written from the property statements."""
from vf import tables

GROUP_DIGITS = {"Informational": 0, "Recovered": 1, "Predictive": 2, "Unrecoverable": 4, "Critical": 5,
                "Diagnostic": 6, "Symptom": 7}


def is_hidden(flags):
    return bool(flags & 0x4000)


def is_serviceable(sev, flags):
    if sev != 0x00:
        return bool(flags & 0x2000) and not is_hidden(flags)
    return bool(flags & 0x8000)


class Sel:
    """selection options"""
    __slots__ = ("every", "s", "N", "H", "t", "only", "groups", "lookup")

    def __init__(self, every=False, s=False, N=False, H=False, t=False, only=False, groups=(), lookup=False):
        self.every, self.s, self.N, self.H, self.t, self.only = every, s, N, H, t, only
        self.groups, self.lookup = tuple(groups), lookup

    def any_option(self):
        return self.every or self.s or self.N or self.H or self.t or self.only or bool(self.groups)

    def argv(self):
        a = []
        if self.every: a.append("-E")
        if self.s: a.append("-s")
        if self.N: a.append("-N")
        if self.H: a.append("-H")
        if self.t: a.append("-t")
        if self.only: a.append("-O")
        if self.groups:
            inv = {v: k for k, v in GROUP_DIGITS.items()}
            a += ["-S"] + [inv[g] for g in self.groups]
        return a

    def __repr__(self):
        return "Sel(%s)" % " ".join(self.argv() + (["<lookup>"] if self.lookup else []))


def select_ref(sev, flags, o: Sel):
    """C07, transcribed from the statement.  Returns True/False, or None where the statement is silent."""
    if o.lookup:
        return True if not o.any_option() else None
    if o.every:
        return True
    hidden = is_hidden(flags)
    serv = is_serviceable(sev, flags)
    term = o.t and sev == 0x51
    anyclass = o.s or o.N or o.H
    in_class = (o.s and serv) or (o.N and not serv) or (o.H and hidden)
    anygrp = bool(o.groups)
    in_grp = (sev >> 4) in o.groups
    default = serv and not hidden
    if not o.only:
        return bool(default or in_class or in_grp or term)
    if term:
        return True
    if not (anyclass or anygrp):
        return False
    return bool((in_class if anyclass else True) and (in_grp if anygrp else True))


def strip_ws_outside_strings(text: str) -> str:
    """JSON-aware: remove whitespace that is not inside a string literal."""
    out = []
    i, n = 0, len(text)
    instr = False
    while i < n:
        ch = text[i]
        if instr:
            out.append(ch)
            if ch == "\\" and i + 1 < n:
                out.append(text[i + 1])
                i += 2
                continue
            if ch == '"':
                instr = False
        else:
            if ch == '"':
                instr = True
                out.append(ch)
            elif ch not in " \t\r\n":
                out.append(ch)
        i += 1
    return "".join(out)
