"""One shard of one property's workload, in its own process."""
import importlib
import json
import os
import sys
import faulthandler

faulthandler.enable()


def main():
    prop, out = sys.argv[1], sys.argv[3]
    with open(sys.argv[2]) as f:
        spec = json.load(f)
    from vf import env
    env.setup_path(registry=spec.get("registry", True))
    from vf.ctx import Ctx
    mod = importlib.import_module("vf.props." + prop.lower())
    ctx = Ctx(prop, spec)
    if bool(spec.get("optimize")) == bool(__debug__):
        raise RuntimeError("shard optimisation level differs from its plan")
    try:
        mod.run(spec, ctx)
    except Exception as e:
        # An exception that comes OUT of the repository's code while the harness merely imports it, builds an options
        # object or calls an entry point outside any monitored decode (e.g. a module that no longer imports, a table loader
        # that raises) is not a harness failure: nothing can be decoded, every property that needs this code is violated.
        import traceback
        frames = traceback.extract_tb(e.__traceback__)
        inner = frames[-1].filename if frames else ""
        if not os.path.realpath(inner).startswith(os.path.realpath(env.MODULES) + os.sep):
            raise
        where = "%s:%d %s" % (os.path.relpath(os.path.realpath(inner), os.path.realpath(env.MODULES)), frames[-1].lineno, frames[-1].name)
        ctx.violation("%s/repository-code-raised-outside-a-decode/%s" % (prop.upper(), type(e).__name__),
                      "the code under test raised %r at %s while the harness was setting up / driving it (last harness frame: %s)" %
                      (e, where, next(("%s:%d" % (os.path.basename(f.filename), f.lineno) for f in reversed(frames)
                                       if "/vf/" in f.filename), "?")))
    ctx.counters["shards.python_O" if not __debug__ else "shards.python_default"] += 1
    tmp = out + ".tmp"
    with open(tmp, "w") as f:
        json.dump(ctx.dump(), f, default=repr)
    os.replace(tmp, out)


if __name__ == "__main__":
    main()
