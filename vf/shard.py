"""One shard of one property's workload, in its own process."""
import importlib
import json
import os
import sys
import faulthandler

faulthandler.enable()


def main():
    prop, out = sys.argv[1], sys.argv[3]
    with open(sys.argv[2]) as f:
        spec = json.load(f)
    from vf import env
    env.setup_path(registry=spec.get("registry", True))
    from vf.ctx import Ctx
    mod = importlib.import_module("vf.props." + prop.lower())
    ctx = Ctx(prop, spec)
    if bool(spec.get("optimize")) == bool(__debug__):
        raise RuntimeError("shard optimisation level differs from its plan")
    mod.run(spec, ctx)
    ctx.counters["shards.python_O" if not __debug__ else "shards.python_default"] += 1
    tmp = out + ".tmp"
    with open(tmp, "w") as f:
        json.dump(ctx.dump(), f, default=repr)
    os.replace(tmp, out)


if __name__ == "__main__":
    main()
