"""Behaviour + call log shared by all fixture parser modules (vf/fixtures/plugins).

Every call made by the decoder into a fixture plugin is recorded here, so the
monitors know exactly which module was consulted with which arguments.
Behaviour is chosen by the data itself (first payload byte / reference code),
never by hidden state: a fixture plugin is a pure function of its arguments."""
import hashlib
import json

CALLS = []          # dicts: kind, module, args...
IMPORTS = []        # fixture module names, appended at import time


def imported(name):
    IMPORTS.append(name)


def reset():
    del CALLS[:]
    del IMPORTS[:]


def ud_result(module, subtype, version, b):
    """What an OK call returns (the harness recomputes this as the oracle)."""
    return {"FX Parser": module.rsplit(".", 1)[-1], "FX Subtype": subtype, "FX Version": version,
            "FX Len": len(b), "FX Sha1": hashlib.sha1(b).hexdigest(), "FX Head": b[:24].hex()}


def ud(module, subtype, version, data):
    b = bytes(data)
    CALLS.append({"kind": "ud", "module": module, "subtype": subtype, "version": version, "data": b,
                  "is_mv": isinstance(data, memoryview)})
    beh = b[:1]
    if beh in (b"X", b"Y", b"Z") and isinstance(data, memoryview):
        data.release()              # a parser that cleans up after itself ("with data:" / try..finally: data.release())
    if beh == b"X":
        raise ValueError("fx plugin failure after releasing its view")
    if beh == b"Y":
        return None
    if beh == b"Z":
        return json.dumps(ud_result(module, subtype, version, b))
    if beh == b"M":
        raise ValueError()          # an exception without any message (bare raise ValueError, failing assert, KeyError())
    if beh == b"T":
        raise RuntimeError("fx plugin failure\nwith a \"second\" line: {x}\n")
    if beh == b"R":
        raise ValueError("fx plugin failure for " + b[:9].decode("latin-1"))
    if beh == b"N":
        return None
    if beh == b"I":
        raise ImportError("fx plugin needs a helper that is missing (raised while parsing)")
    if beh == b"L":
        return json.dumps(["fx list", len(b), b[:8].hex()])
    if beh == b"S":
        return json.dumps({"FX Hostile": 'va"l: {ue}\\ ": x', 'k"ey: ': [1, '":', {"a\": ": "b"}]})
    if beh == b"E":
        raise KeyError("fx key error")
    return json.dumps(ud_result(module, subtype, version, b))


def src_result(module, refcode, words):
    return {"FX SRC Parser": module.rsplit(".", 1)[-1], "FX Refcode": refcode.strip(), "FX Words": list(words)}


def src(module, refcode, *words):
    CALLS.append({"kind": "src", "module": module, "refcode": refcode, "words": list(words)})
    beh = refcode[7:8]
    if beh == "E":
        raise RuntimeError("fx src parser failure")
    if beh == "A":
        raise ModuleNotFoundError("No module named 'fx_optional_helper' (raised while parsing)")
    if beh == "B":
        raise ImportError("fx optional helper cannot be imported (raised while parsing)")
    if beh == "F":
        return None
    if beh == "D":
        return json.dumps(None)
    if beh == "C":
        return ""
    return json.dumps(src_result(module, refcode, words))


PROC_DESCS = {"FXPROC1": ["fx procedure one, line 1", "line \"2\": with hostile chars {"],
              "FXPROC2": ["fx procedure two"]}


def callout(module, procedure):
    CALLS.append({"kind": "callout", "module": module, "procedure": procedure})
    if procedure == "FXRAISE":
        raise RuntimeError("fx callout parser failure")
    if procedure in PROC_DESCS:
        return json.dumps(PROC_DESCS[procedure])
    return ""
