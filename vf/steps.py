"""Logical step counter (sys.monitoring LINE events in repository code only):
the promptness oracle - wall clock is only ever a watchdog."""
import sys

from vf import env


class StepBudgetExceeded(BaseException):
    pass


class Steps:
    def __init__(self):
        self.n = 0
        self.budget = None
        self.on = False
        self.tool = None
        self.lines = set()          # (file, line) executed in repo code, when track_lines
        self.track_lines = False
        self.prefix = env.MODULES + "/"

    def install(self):
        if self.tool is not None:
            return
        mon = sys.monitoring
        self.tool = mon.PROFILER_ID
        mon.use_tool_id(self.tool, "vf-steps")
        mon.register_callback(self.tool, mon.events.LINE, self._line)
        mon.set_events(self.tool, mon.events.LINE)

    def _line(self, code, line):
        if not code.co_filename.startswith(self.prefix):
            return sys.monitoring.DISABLE
        if not self.on:
            return None
        self.n += 1
        if self.track_lines:
            self.lines.add((code.co_filename[len(self.prefix):], line))
        if self.budget is not None and self.n > self.budget:
            raise StepBudgetExceeded("%d line events in repository code (budget %d)" % (self.n, self.budget))
        return None

    def start(self, budget=None):
        self.n = 0
        self.budget = budget
        self.on = True

    def stop(self):
        self.on = False
        return self.n


STEPS = Steps()
