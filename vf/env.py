"""Paths, interpreter, seeds.  Imported by everything; has no side effects
except (on request) arranging sys.path so that the repository under test is
the one named by $VERIF_REPO (default /repo)."""
import os
import sys

VERIF = os.path.dirname(os.path.dirname(os.path.abspath(__file__)))
REPO = os.path.abspath(os.environ.get("VERIF_REPO", "/repo"))
MODULES = os.path.join(REPO, "modules")
PELTOOL = os.path.join(MODULES, "pel", "peltool", "peltool.py")
PY = os.environ.get("VERIF_PY", "/venv/bin/python")
DEPS = os.path.join(VERIF, ".deps")
FIXTURES = os.path.join(VERIF, "vf", "fixtures")
REGISTRY_DIR = os.path.join(FIXTURES, "registry")      # holds pel_registry/
# evidence/replays of runs against another tree (VERIF_REPO=<scratch mutant>) never touch the committed ones
_ALT = REPO != "/repo"
EVIDENCE = os.path.join(VERIF, ".scratch", "alt-evidence") if _ALT else os.path.join(VERIF, "evidence")
REPLAYS = os.path.join(VERIF, ".scratch", "alt-replays") if _ALT else os.path.join(VERIF, "replays")
KNOWN = os.path.join(VERIF, "known_findings.json")
GUARD = "PEL_PARSERS_VERIF"

SEED = int(os.environ.get("VERIF_SEED", "0") or 0)
NPROC = int(os.environ.get("VERIF_JOBS", "0") or 0) or (os.cpu_count() or 4)


def setup_path(registry: bool = True) -> None:
    """Put the repository under test first on sys.path (it wins over the
    editable install of /repo in /venv), the contract libraries last."""
    for p in (MODULES,):
        if p in sys.path:
            sys.path.remove(p)
        sys.path.insert(0, p)
    if registry and REGISTRY_DIR not in sys.path:
        sys.path.insert(1, REGISTRY_DIR)
    if VERIF not in sys.path:
        sys.path.insert(1, VERIF)
    if DEPS not in sys.path:
        sys.path.append(DEPS)


def child_env(registry: bool = True, extra: dict = None) -> dict:
    """Environment for subprocesses that run repository code."""
    e = dict(os.environ)
    pp = [MODULES]
    if registry:
        pp.append(REGISTRY_DIR)
    pp.append(VERIF)
    pp.append(DEPS)
    e["PYTHONPATH"] = os.pathsep.join(pp)
    e["PYTHONHASHSEED"] = "0"
    e["VERIF_REPO"] = REPO
    e[GUARD] = "1"
    e.pop("COVERAGE_PROCESS_START", None)
    # run the tool with the interpreter's default stdout buffering, as a user does (the sandbox exports
    # PYTHONUNBUFFERED=1, which would hide every "deleted before the buffered output was flushed" defect)
    e.pop("PYTHONUNBUFFERED", None)
    if extra:
        e.update(extra)
    return e
