"""C16 - history logs show a full hex dump and exactly the non-zero fields."""
import os
import random

from vf import harness, iogen
from vf import iomodels as im

ID = "C16"
LEVEL = "exploration"
RULE = ("harness-written field tables (widths 1/2 in every order, 0..120 fields, brace on same/next line, optional trailing "
        "comma, with/without 'static') and both shipped tables; data of every length 0..record+8, all-zero, all-ones, random, "
        "and a single non-zero byte at every offset (exposes misalignment after 2-byte fields).  Wrappers over every alias of "
        "parse_hlog_data and get_hlog_fields compare each call with hlog_ref / the written table.  Non-trivial: >= 1 byte "
        "of data and >= 1 field; distinct = (table, data).")
ASSUMPTIONS = ["field names are C identifiers (no double quotes)", "the dump uses the documented default hex-dump layout"]
TABLES = {}


def install(ctx):
    harness.import_all_repo_modules()
    import io_drawer.hlog as hlog
    orig = hlog.parse_hlog_data
    orig_fields = hlog.get_hlog_fields

    def get_hlog_fields(path):
        res = orig_fields(path)
        t = TABLES.get(iogen.pkey(path))
        if t is not None:
            ctx.counters["fields.calls_checked"] += 1
            got = [(f.name, f.size) for f in res]
            if got != t:
                ctx.violation("C16/field-table", "get_hlog_fields returned %d fields %s..., the header declares %d %s..." %
                              (len(got), got[:3], len(t), t[:3]))
        return res
    harness.rebind_everywhere(orig_fields, get_hlog_fields)

    def parse_hlog_data(data, header_file_path):
        res = orig(data, header_file_path)
        t = TABLES.get(iogen.pkey(header_file_path))
        if t is None:
            ctx.counters["hlog.unknown_table"] += 1
            return res
        ctx.counters["hlog.calls_checked"] += 1
        want = im.hlog_ref(bytes(data), t)
        if list(res) != want:
            k = 0
            while k < min(len(res), len(want)) and res[k] == want[k]:
                k += 1
            nd = 2 + (len(bytes(data)) + 15) // 16
            kind = "hex-dump" if k < nd else ("headings" if k < nd + 3 else "fields")
            ctx.violation("C16/" + kind, "parse_hlog_data line %d: shown %r, the model says %r (%d vs %d lines)" %
                          (k, res[k] if k < len(res) else None, want[k] if k < len(want) else None, len(res), len(want)),
                          data=bytes(data)[:300], fields=t[:60])
        ctx.counters["hlog.field_lines_checked"] += sum(1 for x in want if ": 0x" in x)
        return res
    n = harness.rebind_everywhere(orig, parse_hlog_data)
    ctx.counters["hlog.rebound_sites"] = n


def plan(tier, seed):
    n = 40 if tier == "quick" else 1500
    specs = [{"mode": "synthetic", "n": n, "rseed": seed * 1000 + i, "optimize": i % 4 == 3} for i in range(14)]
    specs += [{"mode": "shipped", "which": w, "rseed": seed * 1000 + 100 + k, "reps": 1 if tier == "quick" else 30}
              for k, w in enumerate(["mex", "nimitz"])]
    specs[-1]["optimize"] = True          # python -O: assert statements are compiled away
    specs.append({"mode": "peltool", "n": 14 if tier == "quick" else 250, "rseed": seed * 1000 + 400})
    specs.append({"mode": "layout", "n": 25 if tier == "quick" else 300, "rseed": seed * 1000 + 200})
    return specs


def minimums(tier):
    return {"hlog.calls_checked": 5000, "hlog.field_lines_checked": 20000, "fields.calls_checked": 5000,
            "workload.single_byte_probes": 2000, "workload.lengths": 3000,
            "plugin.hlog_checked": 100, "peltool.io_section_runs": 30, "peltool.io_sections_compared": 30, "layout.compared": 40, "layout.decoded_in_plain_tree": 40, "plugin.synthetic_table_checked": 500, "workload.whole_log_areas": 500}


def drive(ctx, hlog, rng, path, fields, tag):
    rl = iogen.record_len(fields)
    datas = []
    for n in range(0, rl + 9):
        datas.append(bytes(rng.randrange(256) for _ in range(n)))
        ctx.counters["workload.lengths"] += 1
    datas += [bytes(rl), b"\xff" * rl, bytes(rl + 5), b"\xff" * (rl + 3)]
    # over-long data whose length is a whole number of "log areas" (the header's MEX_HLOG_SIZE, 64 in the shipped files): the
    # fields are consumed once, from offset 0; everything else only shows in the hex dump
    area = im.hlog_define_size(fields)
    for mult in (1, 2, 3, 4):
        datas.append(bytes(rng.choice([0, 1, 0xFF, rng.randrange(256)]) for _ in range(area * mult)))
        ctx.counters["workload.whole_log_areas"] += 1
    for off in range(rl):
        b = bytearray(rl)
        b[off] = rng.choice([1, 0x80, 0xFF])
        datas.append(bytes(b))
        ctx.counters["workload.single_byte_probes"] += 1
    for d in datas:
        ctx.current = {"fields": fields[:50], "data": d[:300], "table": tag}
        ctx.case(tag + d.hex(), len(d) >= 1 and len(fields) >= 1,
                 sample={"fields": fields[:3], "data_hex": d[:24].hex()} if len(d) == 7 else None)
        try:
            hlog.parse_hlog_data(iogen.view_of(rng, d), iogen.path_of(rng, path))
        except Exception as e:
            ctx.violation("C16/decoder-raised/" + type(e).__name__, "parse_hlog_data raised %r" % (e,), data=d[:300], fields=fields[:60])


def run(spec, ctx):
    harness.repo()
    install(ctx)
    import io_drawer.hlog as hlog
    rng = random.Random(spec["rseed"])
    root = harness.scratch_root()
    if spec["mode"] == "peltool":
        # the section inside a PEL, decoded by peltool in a process of its own (see vf/iocli.py)
        from vf import iocli
        from vf import pelmodel as pm
        iocli.run(ctx, ID, rng, pm.Uniq(spec["shard"] * 10_000_000), 72, spec["n"])
        return
    if spec["mode"] == "synthetic":
        for i in range(spec["n"]):
            fields = iogen.gen_fields(rng, rng.choice([0, 1, 2, 3, 5, 8, 12, 20, 38]) if i % 6 else rng.choice([80, 120]))
            path = os.path.join(root, "hl_%d.h" % (i % 3))       # paths are reused: the file is rewritten with another table
            im.write_pte_table(path, iogen.gen_table(rng, 2), rng, hlog_fields=fields, style=rng.randrange(256))
            TABLES[os.path.abspath(path)] = list(fields)
            drive(ctx, hlog, rng, path, fields, "syn%d-%d" % (spec["rseed"], i))
            # the same table reached through the I/O-drawer plug-in: a drawer type pointed at this header file (its
            # header_file_name is joined onto the package directory - an absolute name stays as it is); the drawer type objects
            # are long-lived, the file they name changes from round to round
            import json as _json
            import udparsers.m2c00.m2c00 as _m2c00
            from io_drawer.drawer_type import MEX_DRAWER_TYPE, NIMITZ_DRAWER_TYPE
            dt = MEX_DRAWER_TYPE if i % 2 else NIMITZ_DRAWER_TYPE
            saved = dt.header_file_name
            dt.header_file_name = path
            try:
                rl = iogen.record_len(fields)
                for n in (max(1, rl), rl + 2, max(1, rl - 1), rng.randrange(1, rl + 4)):     # a section payload is never empty
                    d = bytes(rng.choice([0, 1, 0xFF, rng.randrange(256)]) for _ in range(n))
                    ctx.count("plugin.synthetic_table_checked")
                    ctx.current = {"plugin_path": "drawer type pointed at a synthetic header", "fields": fields[:40], "data": d}
                    try:
                        got = _json.loads(_m2c00.parseUDToJson(72, dt.user_data_version, memoryview(d)))
                    except Exception as e:
                        ctx.violation("C16/plugin-raised", "m2c00.parseUDToJson(72, ...) raised %r" % (e,), data=d)
                        continue
                    want = im.hlog_ref(d, fields)
                    if got.get("History Log") != want:
                        g = got.get("History Log") or []
                        j = next((q for q in range(min(len(g), len(want))) if g[q] != want[q]), min(len(g), len(want)))
                        ctx.violation("C16/plugin-path", "history log through the plug-in with the drawer type's header file replaced: "
                                      "line %d shown %r, the model says %r" % (j, g[j] if j < len(g) else None,
                                                                               want[j] if j < len(want) else None), data=d)
            finally:
                dt.header_file_name = saved
            if fields and i % 4 == 0:
                # the same path, same size, same time stamps - but another table (widths of two fields swapped)
                k = rng.randrange(len(fields))
                f2 = list(fields)
                f2[k] = (f2[k][0], 3 - f2[k][1])
                target = '{ %d, "%s" }' % fields[k][::-1]
                if iogen.rewrite_same_stat(path, lambda t: t.replace(target, '{ %d, "%s" }' % f2[k][::-1], 1) if t.count(target) == 1 else None):
                    TABLES[os.path.abspath(path)] = f2
                    ctx.count("workload.same_stat_rewrites")
                    drive(ctx, hlog, rng, path, f2, "syn%d-%d-rw" % (spec["rseed"], i))
        return
    if spec["mode"] == "layout":
        # the shipped field tables are found next to the modules: same result however the package is laid out on disk
        from vf import layout
        from io_drawer.drawer_type import DRAWER_TYPES
        cases = []
        for dt in DRAWER_TYPES:
            fields, _ = im.parse_shipped_hlog_fields(dt.get_header_file_path())
            rl = iogen.record_len(fields)
            for _ in range(spec["n"]):
                n = rng.choice([rl, rl, rl + 3, max(1, rl - 1), rng.randrange(1, rl + 9)])
                cases.append((72, dt.user_data_version, bytes(rng.choice([0, 0, 1, 0xFF, rng.randrange(256)]) for _ in range(n))))
        layout.compare(ctx, "C16", cases, "history log data")
        return
    from io_drawer.drawer_type import MEX_DRAWER_TYPE, NIMITZ_DRAWER_TYPE
    dt = MEX_DRAWER_TYPE if spec["which"] == "mex" else NIMITZ_DRAWER_TYPE
    path = dt.get_header_file_path()
    fields, declared = im.parse_shipped_hlog_fields(path)
    ctx.see("shipped.fields", "%s:%d/%s" % (spec["which"], len(fields), declared))
    if declared is None or len(fields) != declared:
        ctx.violation("C16/harness-shipped-table", "independent scanner found %d fields, header declares %s" % (len(fields), declared))
        return
    TABLES[os.path.abspath(path)] = fields
    for _ in range(spec["reps"]):
        drive(ctx, hlog, rng, path, fields, spec["which"])
        # the same decoder reached through the I/O-drawer plugin (sub-type 72): every byte of the section counts
        import json
        import udparsers.m2c00.m2c00 as m2c00
        ver = 1 if spec["which"] == "mex" else 2
        rl = iogen.record_len(fields)
        for n in list(range(1, rl + 6)) + [rl] * 10:
            d = bytes(rng.randrange(256) for _ in range(n))
            k = rng.random()
            if k < 0.4:
                d = d[:max(0, n - rng.randrange(1, 4))] + b"\0" * min(n, 3)       # trailing zero bytes are data, not padding
                d = d[-n:] if len(d) > n else d
            elif k < 0.5:
                d = bytes(n)
            ctx.current = {"plugin_path": True, "version": ver, "data": d}
            ctx.case("m2c00" + spec["which"] + d.hex(), True)
            ctx.count("plugin.hlog_checked")
            try:
                got = json.loads(m2c00.parseUDToJson(72, ver, memoryview(d)))
            except Exception as e:
                ctx.violation("C16/plugin-raised", "m2c00.parseUDToJson(72, %d, ...) raised %r" % (ver, e), data=d)
                continue
            want = im.hlog_ref(d, fields)
            if got.get("History Log") != want:
                g = got.get("History Log") or []
                j = next((i for i in range(min(len(g), len(want))) if g[i] != want[i]), min(len(g), len(want)))
                ctx.violation("C16/plugin-path", "history log of %d bytes through the I/O-drawer plugin: line %d shown %r, the model "
                              "says %r" % (len(d), j, g[j] if j < len(g) else None, want[j] if j < len(want) else None), data=d)
