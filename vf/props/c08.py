"""C08 - list, count and display-all agree on the same PELs in file-name order."""
import json
import os
import random

from vf import cliparse, dirs, harness
from vf import pelmodel as pm
from vf.cliparse import BadOutput
from vf.refmodels import GROUP_DIGITS, Sel, select_ref

ID = "C08"
LEVEL = "exploration"
RULE = ("directories of 0..40 well-formed PELs with distinct entry ids and hostile-but-legal names (mixed case, digits, "
        "several dots, with/without extension, prefixes of each other), PELs with and without a primary SRC (also not in "
        "third position); for each directory several option sets from a pool (none, -E, -s/-N/-H/-t/-O/-S ...) x "
        "{plain, -r, -e <ext>, -x}: peltool main() runs in-process for -n, -l and -a; the relational checker compares "
        "counts, entry-id sequences (ordered JSON parse), --reverse, --extension, each -l field with the -a document of "
        "the same entry id, and --hex dumps with the files' bytes.  Non-trivial: directory has >= 2 selected PELs.")
ASSUMPTIONS = ["file names: ASCII, no leading dot (extension/order conventions are ambiguous otherwise)",
               "entry ids are distinct within a directory", "ascending order = code-point order of file names"]

FIELD_MAP = [("PLID", ("Private Header", "Platform Log Id")), ("CreatorID", ("Private Header", "Creator Subsystem")),
             ("Subsystem", ("User Header", "Subsystem")), ("Commit Time", ("Private Header", "Committed at")),
             ("Sev", ("User Header", "Event Severity")), ("CompID", ("Private Header", "Created by"))]


def plan(tier, seed):
    n = 45 if tier == "quick" else 900
    specs = [{"mode": "dirs", "n": n, "rseed": seed * 1000 + i, "registry": i % 3 != 2} for i in range(14)]
    # the same relations with every peltool invocation in a FRESH process (nothing carried over between the modes), on
    # directories whose PELs share component ids across creator classes
    m = 16 if tier == "quick" else 150
    specs += [{"mode": "fresh", "n": m, "rseed": seed * 1000 + 500 + i, "registry": i != 1} for i in range(3)]
    return specs


def minimums(tier):
    return {"agree.checked": 2000, "order.checked": 2000, "reverse.checked": 400, "extension.checked": 400,
            "fields.compared": 20000, "hex.checked": 300, "src.compared": 2000, "fresh.process_runs": 40,
            "dir.with_pel_beyond_16k": 40, "dir.with_symlinked_pel": 30}


def rand_sel(rng):
    names = list(GROUP_DIGITS)
    r = rng.random()
    if r < 0.15:
        return Sel()
    if r < 0.3:
        return Sel(every=True)
    return Sel(s=rng.random() < 0.3, N=rng.random() < 0.35, H=rng.random() < 0.35, t=rng.random() < 0.2,
               only=rng.random() < 0.4, groups=tuple(GROUP_DIGITS[n] for n in rng.sample(names, rng.choice([0, 0, 1, 2, 4]))))


def run(spec, ctx):
    harness.repo()
    rng = random.Random(spec["rseed"])
    u = pm.Uniq(spec["shard"] * 10_000_000)
    reg = harness.registry_model()
    root = harness.scratch_root()
    if spec["mode"] == "fresh":
        return run_fresh(spec, ctx, rng, u, reg, root)
    for i in range(spec["n"]):
        n = rng.choice([0, 1, 2, 3, 5, 8, 13, 20, 40]) if rng.random() < 0.6 else rng.randrange(0, 25)
        d = dirs.PelDir(os.path.join(root, "d%d" % i))
        ents = dirs.gen_dir_model(rng, u, n, reg=reg, with_ps=0.75)
        if ents and i % 3 == 1:
            # one log well beyond the usual size (17 KiB .. 150 KiB: more than one read buffer, more than "16 KiB"): sections
            # are 16-bit sized and there may be up to 255 of them, so this is a well-formed PEL like the others
            big = rng.choice(ents)
            for _ in range(rng.choice([5, 9, 36])):
                big.pel.sections.append(pm.sec_generic(rng, u, rng.choice([b"EI", b"ZZ"]), pm.gen_payload(rng, u, 4096)))
            big.data = big.pel.encode()
            ctx.count("dir.with_pel_beyond_16k")
        d.extend(ents)
        if ents and i % 4 == 2:
            # one PEL present as a symbolic link to a regular file kept elsewhere (an archive / store directory): every mode
            # sees it, like the other files
            e = rng.choice(ents)
            store = os.path.join(root, "store%d" % i)
            os.makedirs(store, exist_ok=True)
            os.replace(e.path, os.path.join(store, "kept_" + e.name))
            os.symlink(os.path.join(store, "kept_" + e.name), e.path)
            ctx.count("dir.with_symlinked_pel")
        if rng.random() < 0.3 and ents:      # a nested directory with more PELs must be ignored
            sub = dirs.gen_dir_model(rng, u, 2, reg=reg)
            for e in sub:
                e.name = "archive/" + e.name
                e.junk = True
                d.add(e)
        ctx.see("dir.size", n)
        exts = sorted({e.ext for e in ents if e.ext}) or [".pel"]     # an empty -e value means "no filter"
        for _k in range(5):
            o = rand_sel(rng)
            variant = "".join(v for v in ("-r", "-e", "-x") if rng.random() < 0.35) or "plain"
            odd = [x[1:] for x in exts] + [x[-2:] for x in exts] + [".pel.bak", ".x.pel", "."]      # no dot / partial / multi-dot
            check_dir(ctx, d, ents, o, variant, rng.choice(exts + [".nomatch"] + (odd if rng.random() < 0.3 else [])), i, spec)
        d.remove()


FRESH = [False]


def run_fresh(spec, ctx, rng, u, reg, root):
    FRESH[0] = True
    for i in range(spec["n"]):
        # ids that the name files of several creators know (BMC: 2000, 1000, FA00; hostboot: 0100, FA00; PHYP: 4142) or nobody
        comp = rng.choice([0x4142, 0x4842, 0x2000, 0x5A5A, 0x2000, 0xFA00, 0x0100, 0x1000])
        ents = dirs.gen_dir_model(rng, u, rng.randrange(2, 7), reg=reg, with_ps=0.8)
        ents.sort(key=lambda e: e.name)
        for k, e in enumerate(ents):
            # one component id used by PELs of several creator classes (PHYP shows it as two characters, others as hex / a name)
            if k == 0 and e.pel.creator != "H":
                # the first file: the id only occurs AFTER its primary SRC (in a section contributed by PHYP), where the list
                # mode does not look but the display-all mode does
                other = "H" if rng.random() < 0.5 else rng.choice([c for c in "HOB" if c != e.pel.creator])
                e.pel.sections.append(pm.sec_ud(rng, u, e.pel.creator, comp, 1, 1, pm.gen_payload(rng, u, 8), ext_creator=other))
                e.data = e.pel.encode()
                continue
            if rng.random() < 0.7:
                e.pel.ph["comp"] = comp
            if rng.random() < 0.5:
                e.pel.uh["comp"] = comp
            if rng.random() < 0.5:
                e.pel.sections.append(pm.sec_ud(rng, u, e.pel.creator, comp, 1, 1, pm.gen_payload(rng, u, 8),
                                                 ext_creator=rng.choice("HOB")))
            e.data = e.pel.encode()
        d = dirs.PelDir(os.path.join(root, "f%d" % i))
        d.extend(ents)
        for o, variant in ((Sel(every=True), "plain"), (Sel(every=True), "-r"), (rand_sel(rng), "plain")):
            check_dir(ctx, d, ents, o, variant, ".pel", i, spec)
        d.remove()


def run_cli(ctx, argv):
    if FRESH[0]:
        p = harness.cli_sub(argv)
        ctx.count("fresh.process_runs")
        if p is None or p.returncode != 0:
            ctx.violation("C08/cli-failed", "peltool %s (fresh process): rc=%s %s" %
                          (argv[2:], getattr(p, "returncode", "watchdog"), (p.stderr if p else b"")[-300:]))
            return None
        return p.stdout.decode("utf-8", "replace")
    rc, out, err, tb = harness.cli(argv)
    if tb or rc != 0:
        ctx.violation("C08/cli-failed", "peltool %s: rc=%s %s" % (argv[2:], rc, (tb or err)[-400:]))
        return None
    return out


def check_dir(ctx, d, ents, o, variant, ext, i, spec):
    extra = []
    pool = ents
    if "-e" in variant:
        extra += ["-e", ext]
        pool = [e for e in ents if e.ext == ext]
    rev = "-r" in variant
    if rev:
        extra += ["-r"]
    hexmode = "-x" in variant
    if hexmode:
        extra += ["-x"]
    selected = [e for e in sorted(pool, key=lambda e: e.name) if select_ref(e.pel.sev, e.pel.flags, o)]
    if rev:
        selected.reverse()
    want_ids = [e.pel.eid for e in selected]
    base = ["-p", d.root]
    ctx.current = {"options": o.argv() + extra, "files": [(e.name, hex(e.pel.eid), hex(e.pel.sev), hex(e.pel.flags)) for e in ents]}
    ctx.case(json.dumps(ctx.current), len(selected) >= 2,
             sample={"options": o.argv() + extra, "files": [e.name for e in ents][:8]} if i == 0 else None)
    ctx.see("variant", variant)
    outs = {}
    for mode in ("-n", "-l", "-a"):
        outs[mode] = run_cli(ctx, base + [mode] + o.argv() + extra)
        if outs[mode] is None:
            return
    try:
        cnt = cliparse.parse_count(outs["-n"])
        if hexmode:
            dl = cliparse.parse_hex(outs["-l"])
            da = cliparse.parse_hex(outs["-a"])
            want = [e.data for e in selected]
            ctx.count("hex.checked")
            if dl != want or da != want:
                which = "-l" if dl != want else "-a"
                got = dl if dl != want else da
                ctx.violation("C08/hex-dumps", "%s -x printed %d dumps (%s...), the selected files are %d (%s...)" %
                              (which, len(got), [len(x) for x in got][:6], len(want), [len(x) for x in want][:6]))
            if cnt != len(want):
                ctx.violation("C08/count-vs-hex", "-n says %d, -x shows %d dumps" % (cnt, len(want)))
            return
        lst = cliparse.parse_list(outs["-l"])
        docs = cliparse.parse_all(outs["-a"])
        l_ids = [eid for eid, _ in lst]
        a_ids = [cliparse.doc_eid(x) for x in docs]
    except BadOutput as e:
        ctx.violation("C08/malformed-output", "%s (options %s)" % (e, o.argv() + extra))
        return
    ctx.count("agree.checked")
    if not (cnt == len(l_ids) == len(a_ids)):
        ctx.violation("C08/count-list-all-disagree", "-n reports %d, -l lists %d, -a shows %d (options %s)" %
                      (cnt, len(l_ids), len(a_ids), " ".join(o.argv() + extra)))
        return
    if set(l_ids) != set(a_ids):
        ctx.violation("C08/list-all-different-pels", "-l and -a refer to different PELs: %s vs %s" %
                      ([hex(x) for x in l_ids][:8], [hex(x) for x in a_ids][:8]))
        return
    ctx.count("order.checked")
    if rev:
        ctx.count("reverse.checked")
    if "-e" in variant:
        ctx.count("extension.checked")
    for mode, ids in (("-l", l_ids), ("-a", a_ids)):
        if ids != want_ids:
            kind = "reverse" if rev else ("extension" if "-e" in variant and set(ids) != set(want_ids) else "order")
            if set(ids) != set(want_ids):
                kind = "extension" if "-e" in variant else "selection"
            ctx.violation("C08/%s/%s" % (kind, mode), "%s %s shows entry ids %s; files in %s name order give %s" %
                          (mode, " ".join(o.argv() + extra), [hex(x) for x in ids][:10],
                           "descending" if rev else "ascending", [hex(x) for x in want_ids][:10]))
            return
    if cnt != len(want_ids):
        ctx.violation("C08/count", "-n %s reports %d, %d files are selected" % (" ".join(o.argv() + extra), cnt, len(want_ids)))
    bydoc = {cliparse.doc_eid(x): x for x in docs}
    for (eid, summ), e in zip(lst, selected):
        doc = bydoc[eid]
        for lk, (sec, dk) in FIELD_MAP:
            ctx.count("fields.compared")
            a, b = summ.get(lk), doc.get(sec, {}).get(dk)
            same = a == b
            if not same and lk == "PLID":
                try:
                    same = pm.as_hex(a) == pm.as_hex(b)
                except ValueError:
                    same = False
            if not same:
                ctx.violation("C08/list-field/%s" % lk, "-l shows %s=%r for entry %#x, the full decode shows %s/%s=%r" %
                              (lk, a, eid, sec, dk, b))
        ps = doc.get("Primary SRC")
        if ps is not None:
            ctx.count("src.compared")
            if summ.get("SRC") != ps.get("Reference Code"):
                ctx.violation("C08/list-field/SRC", "-l shows SRC=%r for entry %#x, the full decode shows %r" %
                              (summ.get("SRC"), eid, ps.get("Reference Code")))
        elif "SRC" in summ:
            ctx.violation("C08/list-field/SRC", "-l shows SRC=%r for entry %#x which has no primary SRC" % (summ.get("SRC"), eid))
