"""C05 - malformed PELs are rejected cleanly: never a hang, crash or fabricated decode;
equally under python -O."""
import json
import os
import random

from vf import gen, harness, mutate
from vf import pelmodel as pm
from vf.steps import STEPS, StepBudgetExceeded

ID = "C05"
LEVEL = "fault_enumeration"
RULE = ("for each seed PEL (well-formed, every section kind and callout substructure, <= 700 bytes): EVERY proper prefix, "
        "EVERY byte position x 6 corruption values, structure-aware edits (section lengths/count, word count, callout and "
        "substructure sizes, LP/EH length fields, invalid UTF-8), plus random strings of all lengths 0..64 and hostile JSON "
        "user data; decoded in-process under icontract invariants on DataStream and a sys.monitoring step budget, on "
        "interpreter optimisation levels 0 and -O (separate worker processes), and through `peltool.py -f` subprocesses "
        "(python and python -O).  Non-trivial: input differs from every seed; distinct = distinct input bytes.")
ASSUMPTIONS = ["prefix oracle applies with --every-pel only (a filtered-out PEL legitimately prints nothing)",
               "corrupted (non-prefix) inputs may decode or be rejected - both are correct",
               "step budget 50000 + 400*len(input) LINE events in repository code (well-formed decoding needs < 50/byte)"]
WATCHDOG = {"quick": 900, "thorough": 6 * 3600}

SMALL_KINDS = [("SS", 6), ("EH", 6), ("MT", 5), ("LP", 6), ("UD", 10), ("ED", 6), ("HEX", 4), ("UNK", 4)]


def plan(tier, seed):
    nseed = 2 if tier == "quick" else 40          # seed PELs per in-process shard
    specs = []
    for i in range(12):
        specs.append({"mode": "inproc", "optimize": i % 2 == 1, "nseed": nseed, "rseed": seed * 1000 + i,
                      "registry": i % 3 != 2, "ntail": 22 if tier == "quick" else 220})
    ncli = 120 if tier == "quick" else 1500
    for i in range(4):
        specs.append({"mode": "cli", "opt_cli": i % 2 == 1, "n": ncli, "rseed": seed * 1000 + 500 + i})
    return specs


def minimums(tier):
    return {"inproc.O0.decodes": 12000, "inproc.O1.decodes": 12000, "prefix.O0": 1500, "prefix.O1": 1500, "prefix.tail": 8000,
            "datastream.invariant_evals": 100000, "datastream.get_mem_evals": 100000,
            "cli.O0.runs": 200, "cli.O1.runs": 200, "cli.prefix_runs": 60, "steps.counted": 1000000,
            "cli.dir_prefix_runs": 40}


def small_pel(rng, u, reg):
    while True:
        pel = gen.gen_pel(rng, u, reg=reg, kinds=SMALL_KINDS, nopt=rng.choice([1, 2, 3, 4, 5]),
                          creator=rng.choice("OOOBMHX"), primary=rng.random() < 0.8)
        if len(pel.encode()) <= 520:
            return pel


TAILS = ["src-fru", "src-pce", "src-mru", "src-loc", "EH", "LP", "MT", "UD", "ED", "HEX", "UNK", "many-sections"]


def tail_pel(rng, u, reg, want):
    """A small well-formed PEL whose LAST section is of the wanted kind (for SRCs: whose last callout ends in the
    wanted substructure)."""
    if want == "many-sections":
        # 128..255 sections (the count is one unsigned byte), each tiny: a cut anywhere is still a cut
        c = rng.choice("OBM")
        total = rng.choice([128, 129, 200, 254, 255])
        secs = [pm.sec_generic(rng, u, rng.choice([b"ZZ", b"DH", b"XX"]), pm.gen_payload(rng, u, rng.choice([1, 2, 4])))
                for _ in range(total - 2)]
        return pm.Pel(c, pm.gen_ph(rng, u, c), pm.gen_uh(rng, c), secs)
    while True:
        pel = small_pel(rng, u, reg)
        c = pel.creator
        if want.startswith("src-"):
            for _ in range(200):
                s = pm.gen_src(rng, u, False, c, ncallouts=rng.choice([1, 2, 3]), reg=reg)
                last = s.m["callouts"][-1]
                shape = "mru" if last.mru is not None else "pce" if last.pce is not None else "fru" if last.fru is not None else "loc"
                if shape == want[4:] or (want == "src-loc" and shape == "fru" and last.fru["flags"] & 0x0F == 0):
                    break
            else:
                continue
        elif want == "EH":
            s = pm.gen_eh(rng, u, c)
        elif want == "LP":
            s = pm.gen_lp(rng, u, c)
        elif want == "MT":
            s = pm.gen_mt(rng, u, c)
        elif want in ("UD", "ED"):
            s = gen.gen_user_section(rng, u, c, ext=want == "ED")
        else:
            s = pm.sec_generic(rng, u, rng.choice([b"DH", b"SW", b"CH"]) if want == "HEX" else rng.choice([b"XX", b"ID", b"PE"]))
        pel.sections.append(s)
        if len(pel.encode()) <= 700:
            return pel


# ---------------------------------------------------------------------------
def install_contracts(ctx):
    """icontract invariants on the real DataStream (enabled=True: icontract switches itself off under -O)."""
    import icontract
    DS = harness.repo()["DataStream"]

    def cursor_in_bounds(self):
        ctx.counters["datastream.invariant_evals"] += 1
        if not (0 <= self.index <= self.size and self.size == len(self.data)):
            ctx.violation("C05/datastream-cursor-out-of-bounds",
                          "DataStream cursor %r outside [0, %r]" % (self.index, self.size))
        return True

    def returns_requested(self, num_bytes, result):
        ctx.counters["datastream.get_mem_evals"] += 1
        if len(result) != num_bytes:
            ctx.violation("C05/read-past-end", "get_mem(%r) at index %r of %r bytes returned %d bytes" %
                          (num_bytes, self.index - max(num_bytes, 0), self.size, len(result)))
        return True

    def moved_forward(self, num_bytes, OLD):
        if self.index != OLD.idx + num_bytes or num_bytes <= 0:
            ctx.violation("C05/cursor-moved-backwards-or-not-by-request",
                          "cursor went %r -> %r for a request of %r bytes" % (OLD.idx, self.index, num_bytes))
        return True

    def old_index(self):
        return self.index
    icontract.invariant(cursor_in_bounds, enabled=True)(DS)
    DS.get_mem = icontract.snapshot(old_index, name="idx", enabled=True)(
        icontract.ensure(moved_forward, enabled=True)(icontract.ensure(returns_requested, enabled=True)(DS.get_mem)))


def classify(o):
    if o.exit is not None:
        return "exit(%r)" % (o.exit,)
    if o.exc is not None:
        return "error:" + type(o.exc).__name__
    return "doc" if o.text else "nothing"


WALL_LIMIT_S = 30         # per decode of a small input; a normal decode takes a few milliseconds (factor > 1000)


class WallClockExceeded(BaseException):
    pass


def _alarm(signum, frame):
    raise WallClockExceeded("decode still running after %d s" % WALL_LIMIT_S)


def hostile_decode(data, ctx, tag, olevel, prefix_of=None, cfgs=None):
    import signal
    signal.signal(signal.SIGALRM, _alarm)
    ctx.current = {"input": data if len(data) <= 4000 else data[:4000], "len": len(data), "how": tag, "python_O": bool(olevel)}
    for name, cfg in cfgs:
        STEPS.start(50000 + 400 * len(data))
        signal.alarm(WALL_LIMIT_S)
        try:
            o = harness.decode(data, cfg, exit_on_error=False, parse=True)
        finally:
            signal.alarm(0)
        n = STEPS.stop()
        ctx.counters["steps.counted"] += n
        ctx.counters["inproc.O%d.decodes" % olevel] += 1
        cls = classify(o)
        ctx.see("outcome", cls)
        if isinstance(o.exc, WallClockExceeded):
            ctx.violation("C05/no-prompt-termination", "decoding %d bytes (%s) was still running after %d s of wall clock (a decode of this "
                          "size normally takes milliseconds); only %d line events in repository code, i.e. the time is spent inside "
                          "a library call" % (len(data), tag, WALL_LIMIT_S, n))
        elif isinstance(o.exc, StepBudgetExceeded):
            ctx.violation("C05/step-budget-exceeded", "decoding %d bytes (%s) did not finish: %s" % (len(data), tag, o.exc))
        elif o.exc is not None and not isinstance(o.exc, Exception):
            ctx.violation("C05/non-ordinary-error", "decoding (%s) raised %r which the CLI barriers do not catch" % (tag, o.exc))
        elif o.exit is not None:
            ctx.violation("C05/unexpected-exit", "decoding (%s) called exit(%r)" % (tag, o.exit))
        elif o.text and o.doc is None:
            ctx.violation("C05/output-not-json", "decoding (%s) returned text that is not JSON: %r" % (tag, o.text[:200]))
        if o.out:
            ctx.violation("C05/diagnostic-on-stdout", "decoding (%s) printed %r on stdout" % (tag, o.out[:200]))
        if prefix_of is not None and name == "every":
            ctx.counters["prefix.O%d" % olevel] += 1
            if o.text:
                ctx.violation("C05/prefix-decoded",
                              "the first %d of %d bytes of a well-formed PEL were decoded into a document "
                              "(python %s): missing bytes were fabricated" % (len(data), prefix_of, "-O" if olevel else "(no -O)"))


def run(spec, ctx):
    harness.repo()
    rng = random.Random(spec["rseed"])
    u = pm.Uniq(spec["shard"] * 10_000_000)
    reg = harness.registry_model()
    olevel = 0 if __debug__ else 1
    if spec["mode"] == "cli":
        return run_cli(spec, ctx, rng, u, reg)
    if bool(spec.get("optimize")) != bool(olevel):
        raise RuntimeError("shard optimisation level mismatch")
    install_contracts(ctx)
    STEPS.install()
    cfgs = [("every", harness.make_config(every_pel=True)), ("default", harness.make_config())]
    cfg_every = cfgs[:1]
    for k in range(spec["nseed"]):
        pel = small_pel(rng, u, reg)
        data = pel.encode()
        ctx.see("seed.sections", ",".join(s.kind for s in pel.sections))
        # the seed itself must decode (otherwise the prefix oracle would be vacuous)
        o = harness.decode(data, cfgs[0][1])
        if o.kind != "doc":
            ctx.violation("C05/seed-not-decoded", "seed PEL not decoded: %r" % (o.exc,), data=data)
            continue
        for tag, d in mutate.prefixes(data):
            ctx.case(d, True, sample={"how": tag, "len": len(d)} if k == 0 and tag[1] in (10, 100) else None)
            hostile_decode(d, ctx, tag, olevel, prefix_of=len(data), cfgs=cfg_every)
        for tag, d in mutate.corruptions(data, rng):
            ctx.case(d, True, sample={"how": tag, "hex_head": d[:48].hex()} if k == 0 and tag[1] == 50 else None)
            hostile_decode(d, ctx, tag, olevel, cfgs=cfg_every)
        for tag, d in mutate.field_edits(pel, rng):
            ctx.case(d, True)
            ctx.see("edit", tag[0])
            hostile_decode(d, ctx, tag, olevel, cfgs=cfgs)
    # tail sweep: many more seeds, each ending in a chosen kind of section / callout substructure, cut 1..48 bytes short
    # (a decoder that clamps instead of failing at the end of input only shows when nothing follows the structure)
    for k in range(spec.get("ntail", 0)):
        want = TAILS[(k + spec["shard"]) % len(TAILS)]
        pel = tail_pel(rng, u, reg, want)
        data = pel.encode()
        o = harness.decode(data, cfgs[0][1])
        if o.kind != "doc":
            ctx.violation("C05/seed-not-decoded", "seed PEL not decoded: %r" % (o.exc,), data=data)
            continue
        ctx.see("tail.kind", want)
        for cut in range(1, min(48, len(data) - 1) + 1):
            d = data[:len(data) - cut]
            ctx.case(d, True)
            ctx.count("prefix.tail")
            hostile_decode(d, ctx, ("tail-prefix", want, cut), olevel, prefix_of=len(data), cfgs=cfg_every)
    for tag, d in mutate.random_strings(rng, 150):
        ctx.case(d, True)
        hostile_decode(d, ctx, tag, olevel, cfgs=cfgs)
    for doc in mutate.hostile_json_ud(rng, u):
        for sub in (1, 3):
            pel = pm.Pel("O", pm.gen_ph(rng, u, "O"), pm.gen_uh(rng, "O"),
                         [pm.sec_ud(rng, u, "O", 0x2000, sub, 1, doc[:65000], expect_mode="none"), pm.gen_mt(rng, u, "O")])
            d = pel.encode()
            ctx.case(d, True)
            hostile_decode(d, ctx, ("hostile-json", sub, len(doc)), olevel, cfgs=cfg_every)


def run_cli(spec, ctx, rng, u, reg):
    root = harness.scratch_root()
    opt = bool(spec["opt_cli"])
    n = 0
    cases = []
    while len(cases) < spec["n"]:
        pel = small_pel(rng, u, reg)
        data = pel.encode()
        pre = list(mutate.prefixes(data))
        cor = list(mutate.corruptions(data, rng))
        ed = list(mutate.field_edits(pel, rng))
        cases += [(t, d, len(data)) for t, d in rng.sample(pre, 6)]
        cases += [(t, d, None) for t, d in rng.sample(cor, 8)]
        cases += [(t, d, None) for t, d in rng.sample(ed, min(8, len(ed)))]
        cases += [(("random", 0), bytes(rng.randrange(256) for _ in range(rng.randrange(0, 120))), None)]
        cases += [(("wellformed",), data, None)]
    # directory modes that display PELs in full (-a, -a -x, -j): a directory of proper prefixes shows / exports nothing
    import shutil
    for k in range(max(2, spec["n"] // 40)):
        pel = tail_pel(rng, u, reg, TAILS[(k + spec["shard"]) % len(TAILS)]) if k % 2 else small_pel(rng, u, reg)
        data = pel.encode()
        pdir, odir = os.path.join(root, "prefixes%d" % k), os.path.join(root, "prefixes%d-out" % k)
        for x in (pdir, odir):
            shutil.rmtree(x, ignore_errors=True)
            os.makedirs(x)
        cuts = sorted(set(rng.sample(range(1, len(data)), min(30, len(data) - 1))) | {len(data) - 1, len(data) - 2, len(data) - 4})
        for c in cuts:
            with open(os.path.join(pdir, "cut%04d.pel" % c), "wb") as f:
                f.write(data[:c])
        # ... behind ONE well-formed PEL (another log) that sorts first: it is shown, they are not
        ngood = k % 2
        if ngood:
            other = small_pel(rng, u, reg)
            with open(os.path.join(pdir, "a_good_first.pel"), "wb") as f:
                f.write(other.encode())
        for argv in (["-a"], ["-a", "-x"], ["--all-pels", "--hex", "-r"], ["-j", "-o", odir]):
            ctx.current = {"argv": argv + ["-E"], "seed_pel": data, "cuts": cuts, "python_O": opt}
            ctx.case(repr(argv) + data.hex(), True)
            p = harness.cli_sub(["-p", pdir, "-E"] + argv, optimize=opt, plugins=True, registry=True, timeout=300)
            ctx.count("cli.dir_prefix_runs")
            if p is None:
                ctx.violation("C05/no-prompt-termination", "peltool %s on a directory of %d truncated PELs did not finish within 300 s" % (argv, len(cuts)))
                continue
            out, err = p.stdout.decode("utf-8", "replace"), p.stderr.decode("utf-8", "replace")
            shown = out.count("PEL Begin") if "-x" in argv or "--hex" in argv else None
            if argv[0] == "-j":
                shown = len(os.listdir(odir))
            elif shown is None:
                try:
                    shown = len(json.loads(out))
                except ValueError:
                    shown = -1
            if p.returncode not in (0, 1) or "Traceback (most recent call last)" in err:
                ctx.violation("C05/cli-traceback", "peltool %s on truncated PELs: rc=%d %r" % (" ".join(argv), p.returncode, err[-400:]))
            elif shown != ngood:
                ctx.violation("C05/prefix-decoded", "peltool%s %s displayed / exported %s PELs for a directory of %d well-formed PEL(s) "
                              "and %d proper prefixes of a well-formed %d-byte PEL" %
                              (" (python -O)" if opt else "", " ".join(argv), shown, ngood, len(cuts), len(data)))
        shutil.rmtree(pdir, ignore_errors=True)
        shutil.rmtree(odir, ignore_errors=True)
    for tag, d, prefix_of in cases[:spec["n"]]:
        n += 1
        path = os.path.join(root, "case%d.pel" % n)
        with open(path, "wb") as f:
            f.write(d)
        ctx.current = {"argv": ["-f", "<file>", "-E"], "input": d, "how": tag, "python_O": opt}
        ctx.case(d, True, sample={"how": tag, "len": len(d), "python_O": opt} if n <= 2 else None)
        p = harness.cli_sub(["-f", path, "-E"], optimize=opt, plugins=True, registry=True, timeout=120)
        os.unlink(path)
        ctx.counters["cli.O%d.runs" % (1 if opt else 0)] += 1
        if p is None:
            ctx.count("cli.watchdog")
            ctx.violation("C05/no-prompt-termination", "peltool -f on a %d-byte file (%s) did not finish within 120 s" % (len(d), tag))
            continue
        err = p.stderr.decode("utf-8", "replace")
        out = p.stdout.decode("utf-8", "replace")
        ctx.see("cli.outcome", "rc=%d out=%s err=%s" % (p.returncode, "json" if out.strip() else "empty",
                                                        "yes" if err.strip() else "no"))
        if p.returncode not in (0, 1):
            ctx.violation("C05/cli-exit-status", "peltool -f exited with status %d (%s) stderr=%r" % (p.returncode, tag, err[-400:]))
        if "Traceback (most recent call last)" in err or "Fatal Python error" in err:
            ctx.violation("C05/cli-traceback", "peltool -f printed a traceback (%s): %r" % (tag, err[-600:]))
        doc = None
        if out.strip():
            try:
                doc = json.loads(out)
            except ValueError:
                ctx.violation("C05/cli-stdout-not-json", "peltool -f stdout is not JSON (%s): %r" % (tag, out[:300]))
        if prefix_of is not None:
            ctx.count("cli.prefix_runs")
            if out.strip():
                ctx.violation("C05/prefix-decoded", "peltool%s -f printed a document for the first %d of %d bytes of a "
                              "well-formed PEL" % (" (python -O)" if opt else "", len(d), prefix_of))
            elif not err.strip():
                ctx.violation("C05/cli-silent-rejection", "truncated PEL rejected without any diagnostic on stderr (%s)" % (tag,))
        if tag == ("wellformed",) and doc is None:
            ctx.violation("C05/cli-wellformed-not-decoded", "well-formed seed not decoded by the CLI: rc=%d err=%r" % (p.returncode, err[-300:]))
