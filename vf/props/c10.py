"""C10 - look-ups by platform log id, BMC id, entry id and SRC return exactly the matches."""
import json
import os
import random

from vf import cliparse, dirs, harness
from vf import pelmodel as pm
from vf.cliparse import BadOutput

ID = "C10"
LEVEL = "exploration"
RULE = ("directories (BMC-style names <timestamp>_<ENTRYID>) mixing serviceable, hidden, informational PELs and PELs without "
        "a primary SRC; platform log ids forced onto boundary values (0, 1, 0xF, 0x10, 0xFFFF, 0x5002, 0x0FFFFFFF, "
        "0x10000000, 0xFFFFFFFF), ids that are digit-substrings of each other, several PELs sharing one PLID; each id asked "
        "as 8 hex digits in upper/lower case with/without 0x; --bmc-id for every PEL and absent ids; -i for every PEL, absent "
        "ids, lower case; --src with every-length substrings of real reference codes and absent strings; --src-exclude with "
        "0..all codes listed.  peltool main() in-process, no selection option; results compared with the directory model by "
        "set equality / document equality; ids of existing logs spelled leniently (0x inside or doubled, _, sign, blanks, tab) "
        "must display nothing.  Non-trivial: look-up whose expected result is non-empty or that has near-misses.")
ASSUMPTIONS = ["one file per entry id, the id occurs in no other file name, no .json by-products in the directory",
               "no reference code in a directory is a substring of another (exclusion is a text search in the file)",
               "PELs without a primary SRC have no reference code and are not listed by --src / --src-exclude",
               "ids of invalid length only require the documented error exit"]

BOUNDARY_IDS = [0, 1, 0xF, 0x10, 0xFFFF, 0x5002, 0x15002, 0x50020000, 0x0FFFFFFF, 0x10000000, 0x7FFFFFFF, 0x80000000, 0xFFFFFFFF,
                0x00ABCDEF, 0xABCDEF00]


def plan(tier, seed):
    n = 14 if tier == "quick" else 400
    return [{"mode": "lookups", "n": n, "rseed": seed * 1000 + i, "registry": i % 3 != 2} for i in range(16)]


def minimums(tier):
    return {"plid.queries": 3000, "plid.short_id_queries": 500, "bmcid.queries": 1000, "id.queries": 1000, "src.queries": 2000,
            "srcexclude.queries": 300, "found.hidden_or_nonserviceable": 1000, "notfound.queries": 300,
            "bmcid.zero_queries": 40, "bmcid.queries_with_unopenable_entries": 300, "lookups.hex_display": 1000, "src.queries_with_edge_blanks": 100, "bmcid.queries_with_damaged_twin": 100}


def forms(rng, v):
    h = "%08X" % v
    return [h, h.lower(), "0x" + h, "0X" + h.lower(), "0x" + h.lower()]


def hexopt(rng):
    """a quarter of the list look-ups display their matches as hex dumps (-x / --hex, before or after is the caller's)"""
    r = rng.random()
    return ["-x"] if r < 0.15 else ["--hex"] if r < 0.25 else []


def build(rng, u, reg, root, i):
    while True:
        ents = dirs.gen_dir_model(rng, u, rng.randrange(3, 14), reg=reg, bmc_style=True, with_ps=0.8)
        # boundary BMC ids (0 is a valid id: PELs that never got a BMC log id) on a few PELs
        if rng.random() < 0.5:
            ents[0].pel.ph["bmcid"] = 0
        if rng.random() < 0.3 and len(ents) > 1:
            ents[1].pel.ph["bmcid"] = 0xFFFFFFFF
        # boundary / shared PLIDs
        used = set()
        for e in ents:
            r = rng.random()
            if r < 0.5:
                e.pel.ph["plid"] = rng.choice(BOUNDARY_IDS)
            elif r < 0.6 and used:
                e.pel.ph["plid"] = rng.choice(sorted(used))
            used.add(e.pel.ph["plid"])
            e.data = e.pel.encode()
        refs = [e.pel.primary_src().m["refcode"] for e in ents if e.pel.primary_src()]
        if any(a != b and a in b for a in refs for b in refs) or len(set(refs)) != len(refs):
            continue
        if len({e.pel.bmcid for e in ents}) != len(ents):
            continue                      # BMC ids stay unique within a directory (first-match order is unspecified)
        names_ok = all(sum(("%08X" % e.pel.eid) in x.name for x in ents) == 1 for e in ents)
        if names_ok:
            break
    d = dirs.PelDir(os.path.join(root, "d%d" % i))
    d.extend(ents)
    if i % 3 == 1:
        # some logs present as symbolic links to files kept elsewhere: found by every look-up like the others
        import shutil
        shutil.rmtree(os.path.join(root, "store"), ignore_errors=True)
        dirs.symlink_entries(rng, ents, os.path.join(root, "store"), 0.5)
    if rng.random() < 0.5:
        # a sub-directory named after one of the entry ids, sorting before the PEL files: look-ups go to FILES
        e = rng.choice(ents)
        os.makedirs(os.path.join(d.root, "0000_%08X_extracted" % e.pel.eid), exist_ok=True)
        with open(os.path.join(d.root, "0000_%08X_extracted" % e.pel.eid, "readme"), "w") as f:
            f.write("x")
    if rng.random() < 0.4:      # junk and a nested directory must not matter
        d.add(dirs.Entry("zz_junk_%d" % i, None, bytes(rng.randrange(256) for _ in range(40)), junk=True))
        sub = dirs.gen_dir_model(rng, u, 1, reg=reg, bmc_style=True)[0]
        d.add(dirs.Entry("archive/" + sub.name, sub.pel, sub.data, junk=True))
    return d, ents


def classes(e):
    from vf.refmodels import is_hidden, is_serviceable
    return is_hidden(e.pel.flags) or not is_serviceable(e.pel.sev, e.pel.flags)


def run(spec, ctx):
    harness.repo()
    rng = random.Random(spec["rseed"])
    u = pm.Uniq(spec["shard"] * 10_000_000)
    reg = harness.registry_model()
    root = harness.scratch_root()
    for i in range(spec["n"]):
        d, ents = build(rng, u, reg, root, i)
        desc = [(e.name, "plid=%#x" % e.pel.plid, "eid=%#x" % e.pel.eid, "bmc=%d" % e.pel.bmcid,
                 e.pel.primary_src().m["refcode"] if e.pel.primary_src() else None, hex(e.pel.sev), hex(e.pel.flags)) for e in ents]

        def cli(argv, what):
            ctx.current = {"argv": argv, "dir": desc}
            rc, out, err, tb = harness.cli(["-p", d.root] + argv)
            if tb:
                ctx.violation("C10/cli-traceback/" + what, "peltool %s raised: %s" % (argv, tb[-400:]))
                return None, None
            return rc, out

        def expect_list(argv, want_ents, what, key):
            rc, out = cli(argv, what)
            if out is None:
                return
            try:
                if "-x" in argv or "--hex" in argv:
                    # hex display of the matches: each dump is one PEL file, identified by the entry id it holds
                    ctx.count("lookups.hex_display")
                    got = [int.from_bytes(b[44:48], "big") for b in cliparse.parse_hex(out)]
                else:
                    got = [eid for eid, _ in cliparse.parse_list(out)]
            except (BadOutput, IndexError) as e:
                ctx.violation("C10/%s/malformed" % what, "peltool %s: %s" % (argv, e))
                return
            want = sorted(e.pel.eid for e in want_ents)
            if sorted(got) != want or rc != 0:
                missing = [e for e in want_ents if e.pel.eid not in got]
                extra = [g for g in got if g not in want]
                sub = "missed" if missing else "extra"
                if missing and all(classes(e) for e in missing):
                    sub = "missed-hidden-or-nonserviceable"
                ctx.violation("C10/%s/%s" % (what, sub), "peltool %s listed %s, exactly %s match %s (missing %s, extra %s) rc=%s" %
                              (" ".join(argv), [hex(g) for g in got][:8], [hex(w) for w in want][:8], key,
                               [hex(e.pel.eid) for e in missing][:5], [hex(x) for x in extra][:5], rc))
            ctx.counters["found.hidden_or_nonserviceable"] += sum(1 for e in want_ents if classes(e))
            if not want:
                ctx.count("notfound.queries")
                if out.strip() != "{}":
                    pass

        # --plid
        asked = {e.pel.plid for e in ents} | {rng.choice(BOUNDARY_IDS), rng.randrange(1 << 32)}
        for v in sorted(asked):
            for f in forms(rng, v):
                ctx.count("plid.queries")
                if v < 0x10000000:
                    ctx.count("plid.short_id_queries")
                want = [e for e in ents if e.pel.plid == v]
                ctx.case("plid%s|%r" % (f, desc), bool(want) or v < 0x10000000,
                         sample={"argv": ["--plid", f], "matches": len(want)} if i == 0 and f == "%08X" % v else None)
                expect_list(["--plid", f] + hexopt(rng), want, "plid", "platform log id %#x" % v)
        # ids spelled so that a lenient normaliser (replace() for the prefix, int(s, 16), strip()) would read them as the id of
        # a log in the directory: by the stated rule they have the wrong length or do not occur - nothing may be displayed
        e = rng.choice(ents)
        for opt, h in (("--plid", "%08X" % e.pel.plid), ("-i", "%08X" % e.pel.eid)):
            k = rng.randrange(1, 8)
            lenient = [h[:k] + "0x" + h[k:], "0x0x" + h, h[:4] + "_" + h[4:], " " + h, h + " ", "+" + h, "0x+" + h, h + "h",
                       "\t" + h, "0x_" + h, "00x" + h, h + "\n"]
            for f in rng.sample(lenient, 2):
                ctx.count("lookups.leniently_readable_ids")
                ctx.case("lenient%s%r|%r" % (opt, f, desc), True)
                rc, out = cli([opt, f], "lenient-id")
                if out is None:
                    continue
                shown = [x for x in ents if ("%08X" % x.pel.eid) in out.upper()]
                if shown:
                    ctx.violation("C10/lenient-id-matched/" + opt.lstrip("-"),
                                  "peltool %s %r displayed %s although %r is not the id of any log (ids are eight hex digits with an "
                                  "optional 0x prefix)" % (opt, f, [hex(x.pel.eid) for x in shown][:4], f))
        # --bmc-id
        for e in ents + [None, None]:
            n = e.pel.bmcid if e else rng.randrange(1 << 32)
            while e is None and any(x.pel.bmcid == n for x in ents):
                n = rng.randrange(1 << 32)
            ctx.count("bmcid.queries")
            if n == 0:
                ctx.count("bmcid.zero_queries")
            ctx.case("bmc%d|%r" % (n, desc), True)
            rc, out = cli(["--bmc-id", str(n)], "bmc-id")
            if out is None:
                continue
            check_single(ctx, out, rc, e, ents, "bmc-id", "--bmc-id %d" % n)
        # --bmc-id scans the files one by one: an entry that cannot be opened (dangling link, file pruned meanwhile) is skipped
        links = []
        for nm in ("0000_gone", "zzzz_gone", "%s_gone" % rng.choice(ents).name[:6]):
            if not os.path.lexists(os.path.join(d.root, nm)):
                os.symlink("no-such-file-%d" % i, os.path.join(d.root, nm))
                links.append(nm)
        for e in rng.sample(ents, min(3, len(ents))) + [None]:
            n = e.pel.bmcid if e else rng.randrange(1 << 32)
            while e is None and any(x.pel.bmcid == n for x in ents):
                n = rng.randrange(1 << 32)
            ctx.count("bmcid.queries_with_unopenable_entries")
            rc, out = cli(["--bmc-id", str(n)], "bmc-id")
            if out is not None:
                check_single(ctx, out, rc, e, ents, "bmc-id", "--bmc-id %d (directory holds dangling links)" % n)
        for nm in links:
            os.unlink(os.path.join(d.root, nm))
        # ... and a damaged copy of a PEL (intact headers, cut short behind them) that carries the same BMC id: the look-up
        # displays "a PEL whose BMC event log id is N whenever one exists" - the good one, whichever file is met first
        e = rng.choice(ents)
        twins = []
        cut = e.data[:max(100, len(e.data) - rng.choice([1, 5, 20]))]
        if harness.decode(cut).kind != "doc":
            for nm in ("0000_twin_a", "zzzz_twin_b", "%s_twin_c" % e.name[:4]):
                if not os.path.lexists(os.path.join(d.root, nm)):
                    with open(os.path.join(d.root, nm), "wb") as f:
                        f.write(cut)
                    twins.append(nm)
            ctx.count("bmcid.queries_with_damaged_twin")
            rc, out = cli(["--bmc-id", str(e.pel.bmcid)], "bmc-id")
            if out is not None:
                check_single(ctx, out, rc, e, ents, "bmc-id", "--bmc-id %d (damaged files carry the same id)" % e.pel.bmcid)
            for nm in twins:
                os.unlink(os.path.join(d.root, nm))
        # -i
        for e in ents + [None]:
            v = e.pel.eid if e else rng.randrange(1 << 32)
            while e is None and any(("%08X" % v) in x.name for x in ents):
                v = rng.randrange(1 << 32)
            for f in rng.sample(forms(rng, v), 2):
                ctx.count("id.queries")
                ctx.case("id%s|%r" % (f, desc), True)
                rc, out = cli(["-i", f], "id")
                if out is None:
                    continue
                check_single(ctx, out, rc, e, ents, "id", "-i " + f)
        # --src
        with_src = [e for e in ents if e.pel.primary_src()]
        subs = set()
        for e in with_src:
            ref = e.pel.primary_src().m["refcode"]
            for _ in range(5):
                a = rng.randrange(len(ref))
                b = rng.randrange(a + 1, len(ref) + 1)
                subs.add(ref[a:b])
            subs.update([ref, ref[:2], ref[:4], ref[4:8], ref[:8], ref.lower(), ref[:1]])
            if " " in ref:
                # a reference code of two words: search strings that begin or end with the blank are substrings like any other
                k = ref.index(" ")
                subs.update([" ", ref[k - 1:k + 1], ref[k:k + 2], ref[k - 2:k + 3], " " + ref[k + 1:]])
                ctx.count("src.queries_with_edge_blanks", 5)
        subs.update(["ZZZZ", "BD", "11", "B", "0", "bd", "1 ", " 0"])
        for s in sorted(x for x in subs if x and not x.startswith("-")):
            ctx.count("src.queries")
            want = [e for e in with_src if s in e.pel.primary_src().m["refcode"]]
            ctx.case("src%s|%r" % (s, desc), True)
            expect_list(["--src", s] + hexopt(rng), want, "src", "reference code contains %r" % s)
        # --src-exclude
        for k in sorted({0, 1, len(with_src) // 2, len(with_src)}):
            listed = rng.sample(with_src, min(k, len(with_src)))
            path = os.path.join(root, "exclude-%d-%d.txt" % (i, k))
            with open(path, "w") as f:
                f.write("".join(x.pel.primary_src().m["refcode"] + "\n" for x in listed))
                if rng.random() < 0.5:
                    f.write("# comment\nZZZZ0000\n")
            ctx.count("srcexclude.queries")
            want = [e for e in with_src if e not in listed]
            ctx.case("excl%r|%r" % ([x.name for x in listed], desc), True)
            expect_list(["--src-exclude", path] + hexopt(rng), want, "src-exclude", "reference code not in %s" %
                        [x.pel.primary_src().m["refcode"] for x in listed][:5])
            os.unlink(path)
        if with_src and rng.random() < 0.4:
            # a long exclude file (a BMC that has been up for a while): the listed codes sit ACROSS the multiples of 64 KiB,
            # split at a drawn character, between comment lines that contain no reference code
            listed = rng.sample(with_src, min(len(with_src), rng.choice([1, 2, 3])))
            content = ""
            for m, x in enumerate(listed, 1):
                ref = x.pel.primary_src().m["refcode"]
                fill = 65536 * m - (rng.randrange(1, len(ref)) if len(ref) > 1 else 0) - len(content)
                content += "# filler\n" * (fill // 9) + ("#" * (fill % 9 - 1) + "\n" if fill % 9 else "")
                content += ref + "\n"
            if not any(e.pel.primary_src().m["refcode"] in content for e in with_src if e not in listed):
                path = os.path.join(root, "exclude-%d-long.txt" % i)
                with open(path, "w") as f:
                    f.write(content)
                ctx.count("srcexclude.long_file_queries")
                ctx.see("srcexclude.long_file_kib", len(content) // 1024)
                want = [e for e in with_src if e not in listed]
                ctx.case("excl-long%r|%r" % ([x.name for x in listed], desc), True)
                expect_list(["--src-exclude", path] + hexopt(rng), want, "src-exclude", "reference code not in a %d-byte file listing %s" %
                            (len(content), [x.pel.primary_src().m["refcode"] for x in listed][:5]))
                os.unlink(path)
        d.remove()


def check_single(ctx, out, rc, e, ents, what, label):
    """--bmc-id / -i print one document or 'PEL not found'."""
    text = out.strip()
    if e is None:
        ctx.count("notfound.queries")
        if text != "PEL not found" or rc != 0:
            ctx.violation("C10/%s/absent-id" % what, "%s (no such PEL) printed %r rc=%s" % (label, text[:200], rc))
        return
    if classes(e):
        ctx.count("found.hidden_or_nonserviceable")
    try:
        doc = json.loads(text)
        eid = cliparse.doc_eid(doc)
    except (ValueError, BadOutput):
        sub = "missed-hidden-or-nonserviceable" if classes(e) and text in ("PEL not found", "") else "not-found"
        ctx.violation("C10/%s/%s" % (what, sub), "%s printed %r although %s holds that PEL (sev %#x flags %#x)" %
                      (label, text[:200], e.name, e.pel.sev, e.pel.flags))
        return
    if eid != e.pel.eid:
        ctx.violation("C10/%s/wrong-pel" % what, "%s displayed entry %#x, the matching PEL is %#x (%s)" % (label, eid, e.pel.eid, e.name))
        return
    want = harness.decode(e.data)
    if want.doc != doc:
        ctx.violation("C10/%s/document-differs" % what, "%s displayed a document that differs from the decode of %s" % (label, e.name))
