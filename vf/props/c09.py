"""C09 - unreadable files in a PEL directory never disturb the output for the others."""
import json
import os
import random
import shutil

from vf import cliparse, dirs, harness, mutate
from vf import pelmodel as pm
from vf.cliparse import BadOutput

ID = "C09"
LEVEL = "fault_enumeration"
RULE = ("metamorphic relation per directory mode M in {-l, -a, -n, --plid, --src, --src-exclude, -j, -l -x, -a -x}: "
        "M(D + J) must exit 0 with the same stdout (same documents, same order; for -j the same files with the same "
        "content) as M(D), where D is a directory of well-formed PELs and J are files M cannot decode.  J is enumerated "
        "from donor PELs not in D: truncations and single-byte corruptions (6 values) at every k-th offset (k=3 quick, 1 "
        "thorough), structure-aware edits (PCE size < 24, callout sizes, section count...), random files, empty files and a "
        "nested directory holding valid PELs; junk names interleave with the good names in sort order.  A candidate that "
        "the mode still decodes is not junk for that mode and is left out of J.  Non-trivial: J non-empty and D non-empty.")
ASSUMPTIONS = ["no dangling symlinks/FIFOs/unreadable files (the statement lists regular junk files and subdirectories; a symbolic "
               "link to a directory counts as a subdirectory)",
               "stderr is unconstrained", "junk classification per mode uses the decoder's own verdict on the single file"]

MODES_FULL = [["-a"], ["-a", "-x"], ["-j"]]
MODES_SUMMARY = [["-l"], ["-l", "-x"], ["--plid"], ["--src"], ["--src-exclude"], ["-l", "-r"], ["--src", "-x"], ["--src-exclude", "-x"],
                 ["--plid", "-x"], ["--plid", "-x", "-r"]]
MODES_COUNT = [["-n"]]


def plan(tier, seed):
    specs = [{"mode": "junk", "donors": 3 if tier == "quick" else 30, "step": 3 if tier == "quick" else 1,
              "rseed": seed * 1000 + i, "registry": i % 3 != 2} for i in range(15)]
    # the same relation in real processes (real stdout encodings, junk files with names that are not valid UTF-8)
    specs.append({"mode": "sub", "n": 6 if tier == "quick" else 120, "rseed": seed * 1000 + 400})
    return specs


def minimums(tier):
    return {"relation.checked": 1200, "junk.files": 8000, "junk.truncation": 1000, "junk.corruption": 4000,
            "junk.edit": 300, "junk.hostile-json": 50, "mode.-a": 100, "mode.-l": 100, "mode.-n": 100, "mode.-j": 100, "mode.--plid": 30,
            "mode.--src": 30, "mode.--src-exclude": 30, "mode.-a -x": 30, "mode.-l -x": 30, "mode.--plid -x": 30, "sub.relations_checked": 40,
            "junk.nested_dir": 100, "junk.symlink_to_dir": 50, "junk.dir_named_with_extension": 30,
            "mode.with_extension_filter": 60, "sub.good_pel_with_unencodable_text": 4,
            "junk.sibling_of_good_pel": 150, "sub.sibling_junk": 8, "junk.next_to_the_looked_up_pel": 300, "junk.nested_dir_named_like_a_bmc_path": 100}


def classify(data, cls):
    """True if `data` is junk for the mode class (the tool reports nothing for it)."""
    r = harness.repo()
    pt = r["pt"]
    cfg = harness.make_config(every_pel=True)
    if cls == "full":
        return harness.decode(data, cfg).kind != "doc"
    import contextlib
    import io
    with contextlib.redirect_stdout(io.StringIO()), contextlib.redirect_stderr(io.StringIO()):
        try:
            stream = r["DataStream"](bytes(data), byte_order="big", is_signed=False)
            if cls == "summary":
                eid, _ = pt.parsePELSummary(stream, cfg)
                return not eid
            out = {}
            ok, ph = pt.generatePH(stream, out)
            if not ok:
                return True
            ok, uh = pt.generateUH(stream, ph.creatorID, out)
            return not ok
        except Exception:
            return True


def candidates(rng, u, reg, step):
    """(tag, bytes) junk candidates from one donor."""
    while True:
        pel = dirs.gen.gen_pel(rng, u, reg=reg, nopt=rng.choice([2, 3, 4]), creator=rng.choice("OOB"), primary=True,
                               kinds=[("SS", 4), ("EH", 3), ("MT", 3), ("UD", 4), ("LP", 2)])
        if len(pel.encode()) <= 600 and pel.primary_src().m["callouts"]:
            break
    data = pel.encode()
    off = rng.randrange(step)
    out = []
    for tag, d in mutate.prefixes(data):
        if tag[1] % step == off or tag[1] < 80:
            out.append(("truncation", d))
    for tag, d in mutate.corruptions(data, rng, step=step, start=off):
        out.append(("corruption", d))
    for tag, d in mutate.field_edits(pel, rng):
        out.append(("edit", d))
    for doc in mutate.hostile_json_ud(rng, u):
        for before_ps in (True, False):
            ud = pm.sec_ud(rng, u, "O", 0x2000, 1, 1, doc[:60000], expect_mode="none")
            secs = [ud, pm.gen_src(rng, u, True, "O")] if before_ps else [pm.gen_src(rng, u, True, "O"), ud]
            out.append(("hostile-json", pm.Pel("O", pm.gen_ph(rng, u, "O"), pm.gen_uh(rng, "O"), secs).encode()))
    for _ in range(20):
        out.append(("random", bytes(rng.randrange(256) for _ in range(rng.randrange(1, 300)))))
    out += [("empty", b"")] * 5
    return out


def run_mode(ctx, root, argv, outdir=None):
    full = ["-p", root, "-E"] + argv
    if outdir:
        if os.path.exists(outdir):
            shutil.rmtree(outdir)
        os.makedirs(outdir)
        full += ["-o", outdir]
    rc, out, err, tb = harness.cli(full)
    files = None
    if outdir:
        files = {}
        for fn in sorted(os.listdir(outdir)):
            with open(os.path.join(outdir, fn), "rb") as f:
                files[fn] = f.read()
    return rc, out, err, tb, files


def wellformed(argv, out):
    if "-x" in argv:
        cliparse.parse_hex(out)
    elif argv[0] == "-a":
        cliparse.parse_all(out)
    elif argv[0] == "-n":
        cliparse.parse_count(out)
    elif argv[0] == "-j":
        pass
    else:
        cliparse.parse_list(out)


def run_sub(spec, ctx, rng, u, reg, root):
    for i in range(spec["n"]):
        good = dirs.gen_dir_model(rng, u, rng.choice([1, 2, 4]), reg=reg, fixtures=False)
        # a well-formed PEL whose JSON user data holds text that not every output encoding can represent (Latin-1, an
        # emoji, a lone surrogate written as an escape): it sorts between the others and is displayed like them
        import json as _json
        from vf import gen as _gen
        raw = _json.dumps({"Note": rng.choice(["caf\u00e9", "\U0001f525 fire", "half \ud83d pair"]), "More": ["\u00fc", "\udc00"]})
        odd = pm.Pel("O", pm.gen_ph(rng, u, "O"), pm.gen_uh(rng, "O", sev=0x40, flags=0xA000),
                     [pm.sec_ud(rng, u, "O", 0x2000, 1, 1, _gen.nul_pad(raw.encode()), expect_mode="json"), pm.gen_mt(rng, u, "O")])
        names = sorted(e.name for e in good)
        nm = names[0] + "_m" if len(names) > 1 else "zz_last"
        if all(e.name != nm for e in good):
            good.append(dirs.Entry(nm, odd, odd.encode()))
            ctx.count("sub.good_pel_with_unencodable_text")
        # a good BMC PEL whose reference code names a component with an installed SRC parser (hardware diagnostics), and -
        # as junk - its sibling: the same log as a hostboot-type code (BC: other parser routing), cut short after the SRC
        ref = "BD8DE5%02X" % rng.randrange(256)
        hw = pm.Pel("O", pm.gen_ph(rng, u, "O"), pm.gen_uh(rng, "O", sev=0x40, flags=0xA000),
                    [pm.gen_src(rng, u, True, "O", srctype="BD", refcode=ref, ncallouts=1), pm.gen_mt(rng, u, "O"),
                     pm.sec_generic(rng, u, b"XX")])
        hwname = "m_hwdiag_%d.pel" % i
        if all(e.name != hwname for e in good):
            good.append(dirs.Entry(hwname, hw, hw.encode()))
        sib = bytearray(hw.encode())
        off = hw.offsets()[2][0]
        assert bytes(sib[off + 48:off + 50]) == b"BD", bytes(sib[off + 48:off + 56])
        sib[off + 48:off + 50] = b"BC"
        siblings = [("m_hwdiag_%d" % i, bytes(sib[:-6])), ("m_hwdiag_%d.pel.bak" % i, bytes(sib[:-1]))]
        clean = dirs.PelDir(os.path.join(root, "sclean"))
        clean.extend(good)
        dirty = dirs.PelDir(os.path.join(root, "sdirty"))
        for e in good:
            dirty.add(dirs.Entry(e.name, e.pel, e.data))

        junk = [(b"caf\xe9-notes.txt", b"hello world, this is not a PEL\n"), (b"\xff\xfe.bin", bytes(rng.randrange(256) for _ in range(60))),
                (b"0_first.txt", b"PX" + bytes(40)), (b"zz_empty", b""), (b"m\xc3\xa9moire.pel", good[0].data[:30]),
                (b"~latin1-\xe4\xf6\xfc", b"#!/bin/sh\necho junk\n")]
        for nm, content in junk:
            with open(os.path.join(os.fsencode(dirty.root), nm), "wb") as f:
                f.write(content)
        os.makedirs(os.path.join(dirty.root, "nested"), exist_ok=True)
        with open(os.path.join(dirty.root, "nested", good[0].name), "wb") as f:
            f.write(good[0].data)
        for envx in ({}, {"PYTHONIOENCODING": "utf-8:strict"}, {"PYTHONIOENCODING": "ascii"}):
            for argv in (["-a"], ["-l"], ["-n"], ["-j"], ["--src", "B"], ["-a", "-x"]):
                res = []
                # the siblings are junk for the modes that decode a PEL in full (the summary modes stop after the SRC)
                full_mode = argv[0] in ("-a", "-j")
                for nm, dta in siblings:
                    pth = os.path.join(dirty.root, nm)
                    if full_mode:
                        with open(pth, "wb") as f:
                            f.write(dta)
                        ctx.count("sub.sibling_junk")
                    elif os.path.exists(pth):
                        os.unlink(pth)
                for dd in (clean, dirty):
                    out = os.path.join(root, "sout")
                    shutil.rmtree(out, ignore_errors=True)
                    os.makedirs(out)
                    p = harness.cli_sub(["-p", dd.root, "-E"] + argv + (["-o", out] if argv == ["-j"] else []), extra_env=envx)
                    files = {fn: open(os.path.join(out, fn), "rb").read() for fn in sorted(os.listdir(out))}
                    res.append((p, files))
                (p0, f0), (p1, f1) = res
                ctx.current = {"argv": argv, "env": envx, "good": [e.name for e in good]}
                ctx.case(repr(argv) + repr(sorted(envx.items())) + str(i) + str(spec["rseed"]), True,
                         sample={"argv": argv, "env": envx, "junk_names": [repr(n) for n, _ in junk]} if i == 0 and argv == ["-j"] else None)
                ctx.count("sub.relations_checked")
                if p1 is None or p0 is None:
                    ctx.violation("C09/sub-watchdog", "peltool %s did not finish" % argv)
                    continue
                err = p1.stderr.decode("utf-8", "replace")
                if p1.returncode != 0 or "Traceback (most recent call last)" in err:
                    ctx.violation("C09/exit-status/" + argv[0], "peltool %s (own process, env %s) with junk files present: rc=%d %s" %
                                  (" ".join(argv), envx, p1.returncode, err[-400:]))
                    continue
                if argv != ["-j"]:
                    try:
                        wellformed(argv, p1.stdout.decode(envx.get("PYTHONIOENCODING", "utf-8").split(":")[0], "surrogateescape"))
                        ctx.count("sub.stdout_wellformed")
                    except (BadOutput, ValueError) as e:
                        ctx.violation("C09/sub-malformed-output/" + argv[0], "stdout of peltool %s (own process, env %s) on a directory "
                                      "with junk is not the well-formed document of that mode: %s" % (" ".join(argv), envx, e),
                                      tail=p1.stdout[-300:])
                        continue
                if argv == ["-j"]:
                    if f0 != f1:
                        ctx.violation("C09/json-files-differ", "-j (own process, env %s) wrote %s with junk present, %s without" %
                                      (envx, sorted(f1)[:6], sorted(f0)[:6]))
                elif p0.stdout != p1.stdout:
                    ctx.violation("C09/output-differs/" + argv[0], "stdout of %s (own process, env %s) changes when undecodable files are added" %
                                  (" ".join(argv), envx), dirty_tail=p1.stdout[-300:])
        clean.remove()
        dirty.remove()


def run(spec, ctx):
    harness.repo()
    rng = random.Random(spec["rseed"])
    u = pm.Uniq(spec["shard"] * 10_000_000)
    reg = harness.registry_model()
    root = harness.scratch_root()
    if spec["mode"] == "sub":
        return run_sub(spec, ctx, rng, u, reg, root)
    excl = os.path.join(root, "exclude.txt")
    with open(excl, "w") as f:
        f.write("NOTHING\n")
    cand = []
    for _ in range(spec["donors"]):
        cand += candidates(rng, u, reg, spec["step"])
    rng.shuffle(cand)
    classes = (("full", MODES_FULL), ("summary", MODES_SUMMARY), ("count", MODES_COUNT))
    junk = {c: [(t, d) for t, d in cand if classify(d, c)] for c, _ in classes}
    for c in junk:
        ctx.see("junk.class.%s" % c, len(junk[c]))
    pos = {c: 0 for c in junk}
    rnd = 0
    while any(pos[c] < len(junk[c]) for c in junk):
        rnd += 1
        good = dirs.gen_dir_model(rng, u, rng.choice([0, 1, 1, 2, 3, 5, 8]), reg=reg)
        clean = dirs.PelDir(os.path.join(root, "clean"))
        clean.extend(good)
        target = rng.choice(good) if good else dirs.gen_dir_model(rng, u, 1, reg=reg)[0]
        for c, modes in classes:
            batch = junk[c][pos[c]:pos[c] + 24]
            pos[c] += 24
            if not batch:
                continue
            dirty = dirs.PelDir(os.path.join(root, "dirty"))
            for e in good:
                dirty.add(dirs.Entry(e.name, e.pel, e.data))
            names = dirs.gen_names(rng, len(batch) + len(good))
            names = [n for n in names if n not in {e.name for e in good}][:len(batch)]
            for (t, dta), nm in zip(batch, names):
                dirty.add(dirs.Entry(nm, None, dta, junk=True))
                ctx.count("junk.files")
                ctx.count("junk." + t)
            if c == "summary" and good:
                # undecodable files that sort DIRECTLY after (and before) the PEL the look-ups will ask for: an empty file and
                # a copy cut inside its headers
                for nm, dta in ((target.name + "0", b""), (target.name + "~", target.data[:rng.choice([20, 47, 60])]),
                                (target.name[:-1] + chr(max(33, ord(target.name[-1]) - 1)) + "~", target.data[:55])):
                    if classify(dta, "summary") and not os.path.lexists(os.path.join(dirty.root, nm)) and "/" not in nm:
                        dirty.add(dirs.Entry(nm, None, dta, junk=True))
                        ctx.count("junk.next_to_the_looked_up_pel")
            if c == "full":
                # siblings of the good PELs as junk: the same log with its reference code moved to another SRC type
                # (BD <-> BC: same component, other parser routing) and cut short after the SRC - rejected by the full
                # decode, but only after its SRC was looked at; sorts directly before / after its good twin
                for e in good:
                    ps = e.pel.primary_src()
                    if ps is None or ps.m["ascii"][:2] not in ("BD", "BC") or len(e.pel.sections) < 2 or rng.random() < 0.4:
                        continue
                    off = [o for (o, _), sct in zip(e.pel.offsets(), e.pel.all_sections()) if sct is ps][0]
                    sib = bytearray(e.data)
                    sib[off + 48:off + 50] = b"BC" if ps.m["ascii"][:2] == "BD" else b"BD"
                    sib = bytes(sib[:-rng.choice([1, 3, 6])])
                    nm = rng.choice(["0_" + e.name, e.name[:-1] + chr(max(33, ord(e.name[-1]) - 1)) + "~", e.name + "~"])
                    if classify(sib, "full") and not os.path.lexists(os.path.join(dirty.root, nm)) and "/" not in nm:
                        dirty.add(dirs.Entry(nm, None, sib, junk=True))
                        ctx.count("junk.sibling_of_good_pel")
            if rng.random() < 0.5:      # nested directory holding valid PELs: must be ignored
                for e in dirs.gen_dir_model(rng, u, 2, reg=reg):
                    dirty.add(dirs.Entry("sub%d/%s" % (rnd, e.name), e.pel, e.data, junk=True))
                ctx.count("junk.nested_dir")
                if rng.random() < 0.5:
                    # nested directories called like the places a BMC keeps its PELs in: still just subdirectories
                    nd = rng.choice(["logs", "pels/logs", "archive", "var/lib/phosphor-logging/extensions/pels/logs", "pels", "logs/archive"])
                    if not os.path.lexists(os.path.join(dirty.root, nd.split("/")[0])):
                        for e in dirs.gen_dir_model(rng, u, 2, reg=reg):
                            dirty.add(dirs.Entry("%s/%s" % (nd, e.name), e.pel, e.data, junk=True))
                        ctx.count("junk.nested_dir_named_like_a_bmc_path")
                if rng.random() < 0.6:  # ... and a symbolic link to it (or to a directory elsewhere): a subdirectory by another name
                    ln = [n for n in dirs.gen_names(rng, 6) if n not in {e.name for e in dirty.entries}][0]
                    os.symlink(rng.choice(["sub%d" % rnd, os.path.join(dirty.root, "sub%d" % rnd), root]),
                               os.path.join(dirty.root, ln))
                    ctx.count("junk.symlink_to_dir")
            # -e <extension> together with a subdirectory whose NAME carries that extension (a saved folder "x.pel")
            exts = sorted({os.path.splitext(e.name)[1] for e in good} - {""})
            ext_dir = rng.choice(exts) if exts and rng.random() < 0.5 else None
            if ext_dir:
                nm = "%s_saved%s" % (rng.choice(["0000", "zzzz", good[0].name[:5]]), ext_dir)
                if not os.path.lexists(os.path.join(dirty.root, nm)):
                    e = dirs.gen_dir_model(rng, u, 1, reg=reg)[0]
                    dirty.add(dirs.Entry("%s/%s" % (nm, e.name), e.pel, e.data, junk=True))
                    ctx.count("junk.dir_named_with_extension")
            for argv in modes:
                a = list(argv)
                if ext_dir and a[0] != "-j" and rng.random() < 0.6:
                    a += ["-e", ext_dir]
                    ctx.count("mode.with_extension_filter")
                if a[0] == "--plid":
                    a.insert(1, "%08X" % target.pel.plid)
                elif a[0] == "--src":
                    a.insert(1, rng.choice(["B", "1", "BD", "E5"]))
                elif a[0] == "--src-exclude":
                    a.insert(1, excl)
                label = " ".join(argv)
                ctx.count("mode." + label)
                oc = os.path.join(root, "out-clean") if a[0] == "-j" else None
                od = os.path.join(root, "out-dirty") if a[0] == "-j" else None
                ctx.current = {"mode": a, "good": [e.name for e in good], "junk": [(n, t) for (t, _), n in zip(batch, names)][:30]}
                ctx.case(label + repr([(n, t, len(dd)) for (t, dd), n in zip(batch, names)]) + repr([e.name for e in good]), True,
                         sample={"mode": a, "good": [e.name for e in good], "junk_kinds": sorted({t for t, _ in batch})} if rnd == 1 else None)
                rc0, out0, err0, tb0, f0 = run_mode(ctx, clean.root, a, oc)
                rc1, out1, err1, tb1, f1 = run_mode(ctx, dirty.root, a, od)
                # -j prints "No PEL parsed" notes etc.; its result is the set of files
                ctx.count("relation.checked")
                if tb1 or rc1 != 0:
                    ctx.violation("C09/exit-status/" + argv[0], "peltool %s on a directory with junk: rc=%s %s" %
                                  (label, rc1, (tb1 or err1)[-500:]), junk_hex=[dd[:80] for _, dd in batch][:5])
                    continue
                if tb0 or rc0 != 0:
                    ctx.violation("C09/clean-run-failed", "peltool %s on the clean directory failed: %s" % (label, (tb0 or err0)[-300:]))
                    continue
                try:
                    wellformed(a, out1)
                except BadOutput as e:
                    ctx.violation("C09/stdout-malformed/" + argv[0], "stdout of %s is not well-formed with junk present: %s; tail %r" %
                                  (label, e, out1[-200:]), junk_hex=[dd[:80] for _, dd in batch][:5])
                    continue
                if a[0] == "-j":
                    if f0 != f1:
                        ctx.violation("C09/json-files-differ", "-j wrote %s with junk present, %s without" %
                                      (sorted(f1)[:8], sorted(f0)[:8]))
                elif out0 != out1:
                    ctx.violation("C09/output-differs/" + argv[0], "stdout of %s changes when undecodable files are added "
                                  "(%d vs %d chars)" % (label, len(out1), len(out0)), clean_tail=out0[-300:], dirty_tail=out1[-300:])
            dirty.remove()
        clean.remove()
