"""C11 - only delete options remove files, and only the files they name."""
import json
import os
import random
import sys

from vf import cliparse, dirs, env, harness
from vf import pelmodel as pm

ID = "C11"
LEVEL = "exploration"
RULE = ("directory trees with top-level PELs (BMC-style and free names), an archive/ and deeper sub-directories holding PELs "
        "with the same names/ids, files whose names contain / do not contain the id, junk files, empty directories; every "
        "CLI mode x option pool.  Before/after every in-process peltool main() run a recursive snapshot (path, type, size, "
        "sha1) is taken and diffed, and a sys.addaudithook event log (os.remove/rename/rmdir/mkdir/shutil.*, open for "
        "writing, with repository call site) is checked: -d E removes at most one top-level file whose name contains the "
        "normalised id; -D removes exactly the top-level regular files; -j creates only <name>.<entry id>.json in the chosen "
        "output directory; every other mode changes nothing; -d with pattern-like ids or leniently spelled ids of existing files "
        "removes nothing.  Non-trivial: tree has nested PELs or the mode mutates.")
ASSUMPTIONS = ["no symlinks", "--clean is the subject of C12 and not used here",
               "the audit hook records Python-level file-system events only (strace is used in C12)"]

AUDIT = {"on": False, "events": []}
MUTATING = ("os.remove", "os.rename", "os.rmdir", "os.mkdir", "os.unlink", "shutil.rmtree", "shutil.move", "shutil.copyfile",
            "os.truncate", "os.link", "os.symlink", "shutil.copytree", "os.chmod")


def _site():
    f = sys._getframe(2)
    while f is not None:
        fn = f.f_code.co_filename
        if fn.startswith(env.MODULES):
            return "%s:%s" % (os.path.relpath(fn, env.MODULES), f.f_code.co_name)
        f = f.f_back
    return "?"


def _hook(event, args):
    if not AUDIT["on"]:
        return
    if event in MUTATING:
        AUDIT["events"].append((event, str(args[0]) if args else "", _site()))
    elif event == "open":
        path, mode, flags = (list(args) + [None, None, None])[:3]
        if isinstance(flags, int) and flags & (os.O_WRONLY | os.O_RDWR | os.O_CREAT | os.O_TRUNC | os.O_APPEND):
            AUDIT["events"].append(("open-write", str(path), _site()))


def plan(tier, seed):
    n = 110 if tier == "quick" else 2500
    return [{"mode": "trees", "n": n, "rseed": seed * 1000 + i, "registry": i % 3 != 2} for i in range(16)]


def minimums(tier):
    return {"runs.readonly": 4000, "runs.delete": 500, "runs.delete_all": 300, "runs.json": 300, "snapshots.compared": 5000,
            "audit.events": 500, "delete.removed_one": 200, "delete.not_found": 100, "delete.invalid_id": 50,
            "nested.preserved": 300, "runs.file_clean": 200, "runs.readonly_with_dominated_options": 1000,
            "delete_all.with_special_entries": 80, "delete.pattern_like_ids": 300}


def build_tree(rng, u, reg, root, i):
    ents = dirs.gen_dir_model(rng, u, rng.randrange(0, 9), reg=reg, bmc_style=rng.random() < 0.7, with_ps=0.7)
    sub = "t%d" % i
    if rng.random() < 0.3:
        # the directory path itself contains an id (of one of the PELs, or of none): ids are looked for in file NAMES only
        pid = "%08X" % (rng.choice(ents).pel.eid if ents and rng.random() < 0.5 else rng.randrange(1 << 32))
        sub = os.path.join("event_%s_t%d" % (pid, i), "logs")
        PATH_IDS[i] = pid
    elif rng.random() < 0.3:
        # a directory name with characters that mean something to glob / fnmatch / a shell, next to a sibling directory
        # that such a pattern would match and that holds files of the same names: the PEL directory is a path, not a pattern
        meta, twin = rng.choice([("[1]", "1"), ("[1]", "1"), ("?", "x"), ("*", "zz"), ("[!a]", "b"), ("{a,b}", "a")])
        sub = "t%d%s" % (i, meta)
        decoy = os.path.join(root, "t%d%s" % (i, twin))
        os.makedirs(decoy, exist_ok=True)
        for e in ents:
            with open(os.path.join(decoy, e.name), "wb") as f:
                f.write(e.data)
        DECOYS[i] = (decoy, dirs.snapshot(decoy))
    d = dirs.PelDir(os.path.join(root, sub))
    d.extend(ents)
    top = list(ents)
    # nested copies: same names and ids under archive/ and deeper
    for e in ents:
        if rng.random() < 0.6:
            d.add(dirs.Entry("archive/" + e.name, e.pel, e.data, junk=True))
        if rng.random() < 0.2:
            d.add(dirs.Entry("archive/old/" + e.name, e.pel, e.data, junk=True))
    if rng.random() < 0.7:
        extra = dirs.gen_dir_model(rng, u, 2, reg=reg, bmc_style=True)
        for e in extra:
            d.add(dirs.Entry(rng.choice(["archive/", "sub.dir/", "x/y/z/"]) + e.name, e.pel, e.data, junk=True))
    if rng.random() < 0.5:
        os.makedirs(os.path.join(d.root, "emptydir"), exist_ok=True)
    if ents and rng.random() < 0.4:      # a directory whose name contains an entry id (only files may be deleted)
        os.makedirs(os.path.join(d.root, "dir_%08X" % ents[0].pel.eid, "inner"), exist_ok=True)
        with open(os.path.join(d.root, "dir_%08X" % ents[0].pel.eid, "inner", "keep_%08X" % ents[0].pel.eid), "wb") as f:
            f.write(b"keep me")
    # top-level non-PEL files; some carry an id in their name
    for k in range(rng.randrange(0, 4)):
        nm = rng.choice(["notes.txt", "README", "junk%d.bin" % k, "%08X.json" % rng.randrange(1 << 32),
                         ("copy_of_%08X" % ents[0].pel.eid) if ents else "copy"])
        if nm not in [e.name for e in d.entries]:
            e = dirs.Entry(nm, None, bytes(rng.randrange(256) for _ in range(rng.randrange(0, 60))), junk=True)
            d.add(e)
            top.append(e)
    return d, ents, top


PATH_IDS = {}
DECOYS = {}


def diff(a, b):
    removed = sorted(k for k in a if k not in b)
    created = sorted(k for k in b if k not in a)
    changed = sorted(k for k in a if k in b and a[k] != b[k])
    return removed, created, changed


def run(spec, ctx):
    harness.repo()
    sys.addaudithook(_hook)
    rng = random.Random(spec["rseed"])
    u = pm.Uniq(spec["shard"] * 10_000_000)
    reg = harness.registry_model()
    root = harness.scratch_root()
    for i in range(spec["n"]):
        d, ents, top = build_tree(rng, u, reg, root, i)
        outdir = os.path.join(root, "out%d" % i)
        os.makedirs(outdir)
        excl = os.path.join(root, "excl%d" % i)
        with open(excl, "w") as f:
            f.write("X\n")
        e0 = rng.choice(ents) if ents else None
        eid = e0.pel.eid if e0 else rng.randrange(1 << 32)
        readonly = [["-l"], ["-l", "-E"], ["-a"], ["-a", "-E", "-r"], ["-n"], ["-n", "-H", "-O"], ["-i", "%08X" % eid],
                    ["--bmc-id", str(e0.pel.bmcid if e0 else 5)], ["--plid", "%08X" % (e0.pel.plid if e0 else 7)],
                    ["--src", "B"], ["--src-exclude", excl], ["-l", "-x"], ["-a", "-x", "-E"], ["-l", "-e", ".pel"],
                    ["-a", "-P"], ["-l", "-S", "Critical", "Informational"]]
        if e0:
            readonly += [["-f", e0.path], ["-f", e0.path, "-x"], ["-f", e0.path, "-E"]]
        for argv in rng.sample(readonly, 12):
            full = argv if argv[0] == "-f" else ["-p", d.root] + argv
            observe(ctx, d, full, "readonly", None, i, extra_roots=[outdir])
        # the same modes with options of LOWER precedence on the line (other modes incl. -d / -D, which are then not the
        # chosen mode) and with --clean / --output-dir, which mean something to --file and --json only
        for argv in rng.sample(readonly, 8):
            if argv[0] == "-f":
                continue
            soup = cliparse.dominated_options(rng, argv[0], eid=eid, plid=e0.pel.plid if e0 else 7, excl=excl, outdir=outdir)
            ctx.count("runs.readonly_with_dominated_options")
            observe(ctx, d, ["-p", d.root] + argv + soup, "readonly", None, i, extra_roots=[outdir])
        if e0:
            soup = [x for x in cliparse.dominated_options(rng, "-f", eid=eid, excl=excl, allow_clean=False) if x not in ("-c", "--clean")]
            ctx.count("runs.readonly_with_dominated_options")
            observe(ctx, d, ["-p", d.root, "-f", e0.path] + soup, "readonly", None, i, extra_roots=[outdir])
        # --json (no --clean): creates only <name>.<eid>.json in the chosen directory
        for out in (None, outdir):
            argv = ["-p", d.root, "-j"] + rng.choice([[], ["-E"], ["-H", "-N"]]) + (["-o", out] if out else [])
            observe(ctx, d, argv, "json", out or d.root, i, ents=ents, extra_roots=[outdir])
            for base in (d.root, outdir):      # remove by-products again (keeps later look-ups unambiguous)
                for fn in os.listdir(base):
                    if fn.endswith(".json") and os.path.isfile(os.path.join(base, fn)) and fn not in [t.name for t in top]:
                        os.unlink(os.path.join(base, fn))
        # --file --clean removes the entry it was given - the link, when that entry is a symbolic link - and nothing else
        if e0:
            inbox = os.path.join(d.root, "inbox")
            os.makedirs(inbox, exist_ok=True)
            with open(os.path.join(inbox, "real_%08X.pel" % eid), "wb") as f:
                f.write(e0.data)
            os.symlink(rng.choice(["real_%08X.pel" % eid, os.path.join(inbox, "real_%08X.pel" % eid), e0.path]),
                       os.path.join(inbox, "latest.pel"))
            # file names that would also read as shell patterns, next to the files such patterns match
            for nm in ("pel[1].bin", "pel1.bin", "p?l.bin", "pxl.bin", "all*.bin", "all-of-them.bin"):
                with open(os.path.join(inbox, nm), "wb") as f:
                    f.write(e0.data)
            for target in ("inbox/pel[1].bin", "inbox/p?l.bin", "inbox/all*.bin", "inbox/latest.pel", "inbox/real_%08X.pel" % eid):
                observe(ctx, d, ["-f", os.path.join(d.root, target), "-E", rng.choice(["-c", "--clean"])], "file_clean", target, i,
                        extra_roots=[outdir])
            import shutil as _sh
            _sh.rmtree(inbox, ignore_errors=True)
        # --delete
        cands = []
        if e0:
            cands += ["%08X" % eid, ("%08x" % eid), "0x%08X" % eid]
        cands += ["%08X" % rng.randrange(1 << 32), "123", "%09X" % rng.randrange(1 << 36), "zzzzzzzz"]
        if e0:
            # eight characters that are no id of any file but would match one if read as a shell pattern or a path
            h = "%08X" % eid
            k = rng.randrange(8)
            cands += [h[:k] + "?" + h[k + 1:], "*" + h[1:], h[:7] + "*", "[%s]%s" % (h[0], h[3:]), "0x" + h[:k] + "?" + h[k + 1:]] * 1
            # the id of a file spelled so that a lenient normaliser (replace() instead of a prefix test, int(s, 16), strip())
            # would collapse it to the real id: the stated rule - optional 0x prefix, then exactly the eight characters
            # that occur in the file name - matches none of them
            lenient = [h[:k] + "0x" + h[k:], "0x0x" + h, "0X" + h[:4] + "0X" + h[4:], h[:4] + "_" + h[4:], " " + h, h + " ",
                       "+" + h, "0x+" + h, h + "h", "0x" + h + "\n", "\t" + h, h[:7] + "_" + h[7:], "0x_" + h, "00x" + h,
                       h.replace("0", "0x0", 1) if "0" in h else h + "0x"]
            cands += rng.sample(lenient, 3)
            ctx.count("delete.leniently_readable_ids", 3)
            subs = sorted({os.path.dirname(t) for t in d.entries_rel()} - {""}) if hasattr(d, "entries_rel") else []
            nested_names = [k2 for k2 in dirs.snapshot(d.root) if "/" in k2.rstrip("/") and not k2.endswith("/")]
            for nn in nested_names[:2]:
                seg = nn[max(0, nn.index("/") - 3):nn.index("/") + 5]
                if len(seg) == 8:
                    cands += [seg] * 2                      # e.g. "ive/5000": spans a directory separator
            ctx.count("delete.pattern_like_ids")
        if i in PATH_IDS:
            cands += [PATH_IDS[i], PATH_IDS[i].lower()] * 2
        digits = [t.name for t in top if len(t.name) >= 12 and t.name[:12].isdigit()]
        if digits:
            # an id with leading zeros whose significant digits occur in some file name (time stamp part) - no file is stored under it
            nm = rng.choice(digits)
            k = rng.randrange(0, 8)
            short = nm[k:k + rng.choice([2, 3, 4])]
            if not any(short.rjust(8, "0") in t.name for t in top):
                cands += [short.rjust(8, "0"), "0x" + short.rjust(8, "0")] * 2
        for idarg in rng.sample(cands, min(4, len(cands))):
            observe(ctx, d, ["-p", d.root, "-d", idarg], "delete", idarg, i)
        if rng.random() < 0.5:
            if rng.random() < 0.6:
                # entries that are not regular files, directly in the PEL directory: a FIFO, a bound UNIX socket, a dangling
                # link, a link to a directory - "--delete-all removes the regular files" leaves them alone
                import socket
                os.mkfifo(os.path.join(d.root, "notify.fifo"))
                sk = socket.socket(socket.AF_UNIX)
                cwd = os.getcwd()
                try:
                    os.chdir(d.root)              # AF_UNIX paths are short: bind by relative name
                    sk.bind("notify.sock")
                finally:
                    os.chdir(cwd)
                    sk.close()
                os.symlink("nowhere", os.path.join(d.root, "dangling.pel"))
                os.symlink(root, os.path.join(d.root, "updir"))
                ctx.count("delete_all.with_special_entries")
            observe(ctx, d, ["-p", d.root, "-D"], "delete_all", None, i)
        d.remove()
        if i % 4 == 1:
            # The PEL / output directory named by a RELATIVE path that begins with '~' (a directory literally called "~",
            # handed over unexpanded, e.g. from a script): it is that directory, not the home directory.  HOME points to
            # another scratch directory that holds copies of the same files, and is watched.
            import shutil
            work, home = os.path.join(root, "work%d" % i), os.path.join(root, "home%d" % i)
            for x in (work, home):
                shutil.rmtree(x, ignore_errors=True)
                os.makedirs(x)
            td = dirs.PelDir(os.path.join(work, "~"))
            tents = dirs.gen_dir_model(rng, u, rng.randrange(2, 5), reg=None)
            td.extend(tents)
            for e in tents:
                with open(os.path.join(home, e.name), "wb") as f:
                    f.write(e.data)
            os.makedirs(os.path.join(work, "~out"), exist_ok=True)
            old_cwd, old_home = os.getcwd(), os.environ.get("HOME")
            os.chdir(work)
            os.environ["HOME"] = home
            try:
                t0 = tents[0]
                for argv, kind, arg in ((["-p", "~", "-l"], "readonly", None),
                                        (["-p", "~", "-j", "-o", "~out"], "json", None),
                                        (["-p", "~", "-d", "%08X" % t0.pel.eid], "delete", "%08X" % t0.pel.eid),
                                        (["-p", "~", "-D"], "delete_all", None)):
                    if kind == "json":
                        continue          # (the by-product check needs absolute names; the three others carry the point)
                    observe(ctx, td, argv, kind, arg, i, extra_roots=[home])
                    ctx.count("runs.tilde_named_relative_directory")
            finally:
                os.chdir(old_cwd)
                if old_home is None:
                    os.environ.pop("HOME", None)
                else:
                    os.environ["HOME"] = old_home
            shutil.rmtree(work, ignore_errors=True)
            shutil.rmtree(home, ignore_errors=True)
        import shutil
        shutil.rmtree(outdir, ignore_errors=True)
        os.unlink(excl)


def observe(ctx, d, argv, kind, arg, i, ents=None, extra_roots=()):
    roots = [d.root] + list(extra_roots)
    if i in DECOYS:
        decoy, snap0 = DECOYS[i]
        ctx.count("runs.glob_named_directory_with_decoy_sibling")
    before = [dirs.snapshot(r) for r in roots]
    AUDIT["events"] = []
    AUDIT["on"] = True
    try:
        rc, out, err, tb = harness.cli(argv)
    finally:
        AUDIT["on"] = False
    events = list(AUDIT["events"])
    after = [dirs.snapshot(r) for r in roots]
    if i in DECOYS and os.path.isdir(DECOYS[i][0]) and dirs.snapshot(DECOYS[i][0]) != DECOYS[i][1]:
        now = dirs.snapshot(DECOYS[i][0])
        ctx.violation("C11/sibling-directory-touched", "peltool %s changed the sibling directory %s (%s), the PEL directory is %s" %
                      (" ".join(argv), DECOYS[i][0], sorted(set(DECOYS[i][1]) ^ set(now))[:4] or "contents", d.root))
        DECOYS[i] = (DECOYS[i][0], now)
    ctx.count("runs." + kind)
    ctx.count("snapshots.compared", len(roots))
    ctx.counters["audit.events"] += len(events)
    for ev, path, site in events:
        ctx.see("audit.site", "%s@%s" % (ev, site))
    nested = [k for k in before[0] if "/" in k.rstrip("/") and before[0][k][0] == "file"]
    ctx.current = {"argv": argv, "tree": sorted(before[0])[:60], "audit": events[:20]}
    ctx.case(repr(argv) + repr(sorted(before[0].items())), bool(nested) or kind != "readonly",
             sample={"argv": argv[2:] if argv[0] == "-p" else argv, "tree": sorted(before[0])[:10]} if i == 0 and kind in ("delete", "json") else None)
    if tb:
        ctx.violation("C11/cli-traceback", "peltool %s raised %s" % (argv, tb[-300:]))
    removed, created, changed = diff(before[0], after[0])
    other_changes = []
    for r, b, a in list(zip(roots, before, after))[1:]:
        rr, cc, ch = diff(b, a)
        other_changes += [(r, x) for x in rr + cc + ch]
    if nested and all(k in after[0] and after[0][k] == before[0][k] for k in nested):
        ctx.count("nested.preserved")
    top_files = sorted(k for k, v in before[0].items() if v[0] == "file" and "/" not in k)

    if kind == "readonly":
        if removed or created or changed or other_changes:
            ctx.violation("C11/readonly-mode-changed-tree/" + mode_key(argv),
                          "peltool %s changed the tree: removed %s created %s modified %s" %
                          (" ".join(argv[2:] if argv[0] == "-p" else argv), removed[:5], created[:5], changed[:5]))
        if events:
            ctx.violation("C11/readonly-mode-mutating-call/" + mode_key(argv),
                          "peltool %s performed %s" % (" ".join(argv[-3:]), events[:5]))
        return
    if kind == "delete":
        pid = arg.upper()
        if pid.startswith("0X"):
            pid = pid[2:]
        valid = len(pid) == 8
        matching = [k for k in top_files if pid in k] if valid else []
        if not valid:
            ctx.count("delete.invalid_id")
        if created or changed or other_changes:
            ctx.violation("C11/delete-changed-other-files", "-d %s created %s / modified %s" % (arg, created[:5], changed[:5]))
        if any("/" in k for k in removed):
            ctx.violation("C11/delete-descended", "-d %s removed files below the PEL directory: %s" % (arg, removed[:5]))
        elif not set(removed) <= set(matching):
            ctx.violation("C11/delete-wrong-file", "-d %s removed %s; top-level files containing the id: %s" % (arg, removed[:5], matching[:5]))
        elif len(removed) > 1:
            ctx.violation("C11/delete-more-than-one", "-d %s removed %d files: %s" % (arg, len(removed), removed[:5]))
        elif matching and not removed:
            ctx.violation("C11/delete-nothing-removed", "-d %s removed nothing although %s matches" % (arg, matching[:3]))
        elif not matching and valid and "PEL not found" not in out:
            ctx.violation("C11/delete-no-not-found-report", "-d %s (no such file) printed %r" % (arg, out[:100]))
        if removed:
            ctx.count("delete.removed_one")
        elif valid:
            ctx.count("delete.not_found")
        bad = [e for e in events if not (e[0] in ("os.remove", "os.unlink") and os.path.dirname(e[1]) == d.root)]
        if bad:
            ctx.violation("C11/delete-unexpected-mutation-call", "-d %s performed %s" % (arg, bad[:5]))
        return
    if kind == "file_clean":
        if created or changed or other_changes or removed != [arg]:
            ctx.violation("C11/file-clean-touched-other-entries", "-f %s --clean removed %s, created %s, modified %s (elsewhere: %s); "
                          "only the named entry may go" % (arg, removed[:5], created[:5], changed[:5], other_changes[:3]))
        return
    if kind == "delete_all":
        if created or changed or other_changes:
            ctx.violation("C11/delete-all-changed-other-files", "-D created %s / modified %s" % (created[:5], changed[:5]))
        if sorted(removed) != top_files:
            sub = "descended" if any("/" in k for k in removed) else \
                "removed-entry-that-is-no-regular-file" if any(before[0].get(k, ("file",))[0] != "file" for k in removed) else "incomplete"
            ctx.violation("C11/delete-all-" + sub, "-D removed %s; the regular files directly in the directory are %s" %
                          (removed[:8], top_files[:8]))
        return
    if kind == "json":
        outroot = arg
        idx = roots.index(outroot) if outroot in roots else 0
        rr, cc, ch = diff(before[idx], after[idx])
        class Allowed:
            """file names of the form <pel file>.<entry id>.json (hex, zero padding not constrained)"""
            def __contains__(self, fn):
                return any(dirs.is_json_name(fn, e.name, e.pel.eid) for e in ents or [])
        allowed = Allowed()
        # everything that changed anywhere
        allch = []
        for r, b, a in zip(roots, before, after):
            x, y, z = diff(b, a)
            allch += [(r, k, "removed") for k in x] + [(r, k, "modified") for k in z] + \
                     [(r, k, "created") for k in y if not (r == outroot and k in allowed)]
        if allch:
            ctx.violation("C11/json-mode-changed-other-files", "-j touched files other than <pel file>.<entry id>.json in %s: %s" %
                          (outroot, allch[:6]))
        for k in cc:
            if k in allowed:
                ctx.count("json.files_created")
        bad = [e for e in events if not (e[0] == "open-write" and os.path.dirname(e[1]) == outroot and os.path.basename(e[1]) in allowed)]
        if bad:
            ctx.violation("C11/json-mode-unexpected-mutation-call", "-j performed %s" % (bad[:5],))


def mode_key(argv):
    a = argv[2:] if argv and argv[0] == "-p" else argv
    return a[0] if a else "?"
