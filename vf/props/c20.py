"""C20 - hardware-diagnostics signatures and register dumps are decoded field-exactly."""
import glob
import json
import os
import random
import struct

from vf import env, harness
from vf import pelmodel as pm

ID = "C20"
LEVEL = "exploration"
RULE = ("12-byte signatures with independent random bytes in all 12 positions (so any swapped slice shows) plus boundary values, "
        "upper/lower-case hex, chip models present/absent in the chip data; chip data directory absent / full / partial (missing "
        "type, desc, attention table, signature bit, register instance) selected through pel.hwdiags.data.__file__; signature "
        "lists of 0..40 entries, register dumps of 0..6 chips x 0..12 registers x data sizes 1..255, scratch-register and "
        "callout-FFDC sections; driven through direct ParserData calls, through 0xE500 user-data sections of BMC PELs and "
        "through BD..E5.. primary SRCs (words 6..8).  Wrappers over ParserData.get_signature/get_reg_data and the two oe500 "
        "plugin entry points compare every call with sig_ref / the section model.  Models without chip data include the 8-hex-"
        "digit constants harvested from the loaded hw-diags modules and EC-level / one-bit neighbours of known models; pairs of "
        "(node, position) whose digits glue to the same string.  Non-trivial: all; distinct = input bytes.")
ASSUMPTIONS = ["chip data files follow the upstream layout (lower-case hex keys; [name, {bit: desc}] / [name, {inst: addr}])",
               "register data size 0 is outside the stated 1..255"]

DATA = {"cfg": "absent", "chips": {}}


def load_chipdata(cfg):
    import pel.hwdiags.data as data
    if cfg == "absent":
        d = os.path.join(harness.scratch_root(), "chipdata_absent")
        os.makedirs(d, exist_ok=True)
        with open(os.path.join(d, "._explorer_20.json"), "wb") as f:      # a hidden file is not a chip data file
            f.write(b"\x00\x05\x16\x07 resource fork")
        with open(os.path.join(d, "README.txt"), "w") as f:
            f.write("chip data files go here\n")
    elif cfg == "damaged":
        # one intact and one truncated chip data file: every decode that needs the chip data fails the same way
        import shutil
        d = os.path.join(harness.scratch_root(), "chipdata_damaged")
        shutil.rmtree(d, ignore_errors=True)
        shutil.copytree(os.path.join(env.FIXTURES, "chipdata_full"), d)
        victim = sorted(f for f in os.listdir(d) if f.endswith(".json") and not f.startswith("."))[-1]
        with open(os.path.join(d, victim), "r+b") as f:
            f.truncate(os.path.getsize(os.path.join(d, victim)) // 2)
    else:
        d = os.path.join(env.FIXTURES, "chipdata_" + cfg)
    data.__file__ = os.path.join(d, "__init__.py")
    chips = {}
    for f in glob.glob(os.path.join(d, "*.json")):          # glob: hidden files are not matched
        with open(f) as fd:
            try:
                j = json.load(fd)
            except ValueError:
                continue
        chips[j["model_ec"]["id"]] = j
    DATA["cfg"], DATA["chips"] = cfg, chips


def chip_desc_ref(model, node, pos):
    c = DATA["chips"].get(model.lower(), {})
    typ = c.get("model_ec", {}).get("type", "unknown")
    desc = c.get("model_ec", {}).get("desc", model.upper())
    return "node %d %s %d (%s)" % (node, typ, pos, desc)


def sig_ref(a, b, c):
    a, b, c = a.lower(), b.lower(), c.lower()
    raw = bytes.fromhex(a + b + c)
    model = a
    pos, node, attn = struct.unpack(">HBB", raw[4:8])
    sid, inst, bit = raw[8:10].hex(), raw[10], raw[11]
    chip = DATA["chips"].get(model, {})
    sig = chip.get("signatures", {}).get(sid)
    name = sig[0] if sig else "id:" + sid.upper()
    desc = sig[1].get(str(bit), "") if sig else ""
    attn_s = chip.get("attn_types", {}).get(str(attn), str(attn))
    return {"Chip Desc": chip_desc_ref(model, node, pos), "Signature": "%s(%d)[%d] %s" % (name, inst, bit, desc),
            "Attn Type": attn_s}


def reg_ref(model, reg_id, inst):
    chip = DATA["chips"].get(model.lower(), {})
    r = chip.get("registers", {}).get(reg_id.lower())
    name = r[0] if r else "id:%s inst:%d" % (reg_id.upper(), inst)
    addr = int(r[1][str(inst)], 16) if r and str(inst) in r[1] else 0
    return name, addr


def regdump_ref(chips):
    """chips: [(model hex8, pos, node, [(regid hex6, inst, data bytes)])] -> lines"""
    out = []
    for model, pos, node, regs in chips:
        out.append((chip_desc_ref(model, node, pos) + " ").ljust(60, "*"))
        for rid, inst, data in regs:
            name, addr = reg_ref(model, rid, inst)
            hx = data.hex().upper()
            out.append("  %s (0x%08X) %s" % (name[:25].ljust(25), addr, " ".join(hx[i:i + 4] for i in range(0, len(hx), 4))))
    return out


def enc_regdump(chips):
    b = struct.pack(">I", len(chips))
    for model, pos, node, regs in chips:
        b += bytes.fromhex(model) + struct.pack(">HBI", pos, node, len(regs))
        for rid, inst, data in regs:
            b += bytes.fromhex(rid) + bytes([inst, len(data)]) + data
    return b


KNOWN_MODELS = ["20da0020", "60d20020"]
KNOWN_SIGS = {"20da0020": ["abcd", "00ff", "8000"], "60d20020": ["1234"]}
KNOWN_REGS = {"20da0020": ["abcdef", "000001"], "60d20020": ["123456"]}


HARVEST = []          # 8-hex-digit constants the code under test carries (filled by install)


def other_model(rng):
    """A chip model WITHOUT chip data: random; one EC level / one bit away from a model that has data; or a constant that
    the decoder itself carries (a table of 'compatible' or special-cased models would be keyed by exactly those)."""
    r = rng.random()
    if HARVEST and r < 0.3:
        return rng.choice(HARVEST)
    if r < 0.5:
        v = int(rng.choice(KNOWN_MODELS), 16)
        v = (v + rng.choice([1, 2, -1, 0x10, -0x10])) & 0xFFFFFFFF if rng.random() < 0.6 else v ^ (1 << rng.randrange(32))
        m = "%08x" % v
        return m if m not in KNOWN_MODELS else "%08x" % rng.randrange(1 << 32)
    return "%08x" % rng.randrange(1 << 32)


def alike_positions(rng):
    """two different (node, position) pairs whose decimal (or hex) digits read the same when written one after the other,
    e.g. (1, 23) / (12, 3): a key built by gluing the numbers together cannot tell them apart"""
    fmt = rng.choice(["%d", "%d", "%x"])
    while True:
        n1, p1 = rng.randrange(256), rng.randrange(0x10000) if rng.random() < 0.5 else rng.randrange(100)
        glued = (fmt % n1) + (fmt % p1)
        cuts = [i for i in range(1, len(glued)) if i != len(fmt % n1)]
        rng.shuffle(cuts)
        for i in cuts:
            a, b = glued[:i], glued[i:]
            try:
                n2, p2 = int(a, 16 if "x" in fmt else 10), int(b, 16 if "x" in fmt else 10)
            except ValueError:
                continue
            if n2 < 256 and p2 < 0x10000 and (fmt % n2) + (fmt % p2) == glued and (n2, p2) != (n1, p1):
                return (n1, p1), (n2, p2)


def with_position(sig, node, pos):
    a, b, c = sig
    return a, "%04x%02x%s" % (pos, node, b[6:8]), c


def rand_sig(rng):
    model = rng.choice(KNOWN_MODELS) if rng.random() < 0.6 else other_model(rng)
    b = bytearray(rng.randrange(256) for _ in range(8))
    if rng.random() < 0.3:
        b[3] = rng.choice([1, 2, 3, 4, 5, 0, 255])            # attention type
    if model in KNOWN_SIGS and rng.random() < 0.7:
        b[4:6] = bytes.fromhex(rng.choice(KNOWN_SIGS[model]))
        if rng.random() < 0.6:
            b[7] = rng.choice([0, 1, 5, 7, 255])
    if rng.random() < 0.1:
        b = bytearray(rng.choice([0, 0xFF, 0x80, 0x7F]) for _ in range(8))
    return model, bytes(b[:4]).hex(), bytes(b[4:]).hex()


def case_style(rng, s):
    r = rng.random()
    return s.upper() if r < 0.4 else (s.lower() if r < 0.8 else "".join(ch.upper() if rng.random() < 0.5 else ch for ch in s))


def install(ctx):
    harness.import_all_repo_modules()
    from pel.hwdiags.parserdata import ParserData
    o_sig, o_reg = ParserData.get_signature, ParserData.get_reg_data
    import re
    import sys
    mods = [m for m in sys.modules if m.startswith(("pel.hwdiags", "udparsers.oe500", "srcparsers.oe500"))]
    HARVEST[:] = sorted(v.lower() for v in harness.harvest_constants(
        mods, lambda v: isinstance(v, str) and re.fullmatch(r"[0-9a-fA-F]{8}", v)) if v.lower() not in KNOWN_MODELS)
    ctx.counters["models.carried_by_the_code"] += len(HARVEST)

    def get_signature(self, a, b, c):
        res = o_sig(self, a, b, c)
        ctx.counters["get_signature.checked"] += 1
        want = sig_ref(a, b, c)
        if dict(res) != want or list(res) != list(want):
            bad = [k for k in want if res.get(k) != want[k]] or ["keys"]
            ctx.violation("C20/signature/" + bad[0].replace(" ", "-"), "get_signature(%s, %s, %s) [chip data %s]: %s shown as %r, "
                          "the bytes say %r" % (a, b, c, DATA["cfg"], bad[0], res.get(bad[0]), want.get(bad[0])))
        return res

    def get_reg_data(self, model, rid, inst):
        res = o_reg(self, model, rid, inst)
        ctx.counters["get_reg_data.checked"] += 1
        name, addr = reg_ref(model, rid, inst)
        try:
            ok = res[0] == name and int(res[1], 16) == addr
        except Exception:
            ok = False
        if not ok:
            ctx.violation("C20/register-lookup", "get_reg_data(%s, %s, %d) [chip data %s] returned %r, expected (%r, %#x)" %
                          (model, rid, inst, DATA["cfg"], res, name, addr))
        return res
    ParserData.get_signature, ParserData.get_reg_data = get_signature, get_reg_data


def plan(tier, seed):
    n = 1 if tier == "quick" else 40
    return [{"mode": m, "cfg": c, "rseed": seed * 1000 + i * 3 + j, "reps": n}
            for i, m in enumerate(["direct", "ud", "src", "pel", "direct"]) for j, c in enumerate(["absent", "full", "partial"])] + \
           [{"mode": "ud", "cfg": "full", "rseed": seed * 1000 + 99, "reps": n},
            {"mode": "pel", "cfg": "full", "rseed": seed * 1000 + 98, "reps": n, "optimize": True},
            {"mode": "ud", "cfg": "partial", "rseed": seed * 1000 + 97, "reps": n, "optimize": True}]


def minimums(tier):
    return {"get_signature.checked": 30000, "get_reg_data.checked": 10000, "ud.sections": 1500, "src.details_checked": 1000,
            "regdump.lines_checked": 10000, "siglist.entries_checked": 10000, "scratch.checked": 300, "ffdc.checked": 100}


def run(spec, ctx):
    harness.repo()
    install(ctx)
    load_chipdata(spec["cfg"])
    ctx.see("chipdata", spec["cfg"])
    rng = random.Random(spec["rseed"])
    u = pm.Uniq(spec["shard"] * 10_000_000)
    from pel.hwdiags.parserdata import ParserData
    import udparsers.oe500.oe500 as ud
    import srcparsers.oe500.oe500 as sp
    for _rep in range(spec["reps"]):
        if spec["mode"] == "direct":
            p = ParserData()
            for i in range(4000):
                a, b, c = rand_sig(rng)
                a, b, c = case_style(rng, a), case_style(rng, b), case_style(rng, c)
                ctx.current = {"words": [a, b, c], "chipdata": spec["cfg"]}
                ctx.case(a + b + c + spec["cfg"], True, sample={"words": [a, b, c]} if i < 2 else None)
                calls = [(a, b, c)]
                if i % 8 == 0:
                    (n1, p1), (n2, p2) = alike_positions(rng)
                    calls = [with_position((a, b, c), n1, p1), with_position((a, b, c), n2, p2)]
                    ctx.counters["positions.digits_glue_alike"] += 1
                for a, b, c in calls:
                    ctx.current = {"words": [a, b, c], "chipdata": spec["cfg"]}
                    try:
                        p.get_signature(a, b, c)
                    except Exception as e:
                        ctx.violation("C20/signature-error", "get_signature(%s, %s, %s) [chip data %s] raised %r" % (a, b, c, spec["cfg"], e))
            for i in range(1500):
                model = rng.choice(KNOWN_MODELS) if rng.random() < 0.7 else other_model(rng)
                rid = rng.choice(KNOWN_REGS.get(model, ["ffffff"])) if rng.random() < 0.7 else "%06x" % rng.randrange(1 << 24)
                inst = rng.choice([0, 1, 2, 3, 255, rng.randrange(256)])
                ctx.case("reg" + model + rid + str(inst) + spec["cfg"], True)
                try:
                    p.get_reg_data(case_style(rng, model), case_style(rng, rid), inst)
                except Exception as e:
                    ctx.violation("C20/register-error", "get_reg_data(%s, %s, %d) raised %r" % (model, rid, inst, e))
        elif spec["mode"] == "ud":
            for i in range(700):
                check_ud(ctx, rng, ud, via_pel=False, u=u)
        elif spec["mode"] == "pel":
            for i in range(300):
                check_ud(ctx, rng, ud, via_pel=True, u=u)
        else:
            for i in range(600):
                # in every second repetition the very first SRC of the process is a look-alike, not a hardware-diagnostics one
                check_src(ctx, rng, u, neighbour_first=(i == 0 and _rep % 2 == 0 and spec["shard"] % 2 == 1))


def gen_ud(rng):
    """(subtype, payload, expected json value)"""
    r = rng.random()
    if r < 0.35:
        n = rng.choice([0, 1, 2, 3, 10, 40])
        sigs = [rand_sig(rng) for _ in range(n)]
        if n >= 2 and rng.random() < 0.5:      # the same position/signature words under different chip models
            a0, b0, c0 = sigs[0]
            sigs = [(rng.choice(KNOWN_MODELS + [other_model(rng)]), b0, c0) for _ in range(n)]
        elif n >= 2 and rng.random() < 0.5:    # one model, positions whose digits glue to the same string
            (n1, p1), (n2, p2) = alike_positions(rng)
            i = rng.randrange(n - 1)
            sigs[i] = with_position(sigs[i], n1, p1)
            sigs[i + 1] = with_position((sigs[i][0],) + sigs[i + 1][1:], n2, p2)
        payload = struct.pack(">I", n) + b"".join(bytes.fromhex(a + b + c) for a, b, c in sigs)
        return 1, payload, {"Signature List": [sig_ref(a, b, c) for a, b, c in sigs]}, ("siglist", n)
    if r < 0.75:
        chips = []
        # half of the dumps reuse a few (register id, instance) pairs on every chip - chips of different models, with and
        # without chip data - so that anything remembered from one chip and shown for another is visible
        shared = rng.sample(["abcdef", "123456", "000001", "%06x" % rng.randrange(1 << 24)], 3) if rng.random() < 0.5 else None
        for _ in range(rng.choice([0, 1, 2, 3, 6])):
            model = rng.choice(KNOWN_MODELS) if rng.random() < 0.6 else other_model(rng)
            regs = []
            for _k in range(rng.choice([0, 1, 2, 5, 12])):
                rid = rng.choice(KNOWN_REGS.get(model, ["ffffff"])) if rng.random() < 0.6 else "%06x" % rng.randrange(1 << 24)
                if shared:
                    rid = rng.choice(shared)
                size = rng.choice([1, 2, 3, 4, 7, 8, 16, 255]) if rng.random() < 0.8 else rng.randrange(1, 256)
                regs.append((rid, rng.choice([0, 0, 2, 3]) if shared else rng.choice([0, 1, 2, 3, 255]),
                             bytes(rng.randrange(256) for _ in range(size))))
            chips.append((model, rng.randrange(0x10000), rng.randrange(256), regs))
        if len(chips) >= 2 and rng.random() < 0.4:
            (n1, p1), (n2, p2) = alike_positions(rng)
            i = rng.randrange(len(chips) - 1)
            chips[i] = (chips[i][0], p1, n1, chips[i][3])
            chips[i + 1] = (chips[i][0], p2, n2, chips[i + 1][3])
        lines = regdump_ref(chips)
        return 2, enc_regdump(chips), {"Register Dump": lines}, ("regdump", len(lines))
    if r < 0.83:
        doc = {"Callout List": [{"LocationCode": "U78DA.ND0-P0", "Priority": "H", "k\": ": 'v": {'}], "n": rng.randrange(100)}
        return 3, json.dumps(doc).encode() + b"\0" * rng.choice([1, 1, 2, 4]), {"Callout List FFDC": doc}, ("ffdc", 1)
    if r < 0.92:
        b = bytes(rng.randrange(256) for _ in range(24))
        return 4, b, {"Hostboot Scratch Registers": {"0x" + b[0:4].hex(): "0x" + b[4:8].hex(),
                                                    "0x" + b[8:16].hex(): "0x" + b[16:24].hex()}}, ("scratch", 1)
    b = bytes(rng.randrange(256) for _ in range(8))
    return 5, b, {"Scratch Register Error Signature": {"Chip ID": "0x" + b[0:4].hex(), "Signature ID": "0x" + b[4:8].hex()}}, ("scratch", 1)


def compare_ud(ctx, got, want, kind, payload, how):
    ok = got == want
    if not ok and kind[0] in ("scratch",):
        # hex case is not constrained
        ok = json.loads(json.dumps(got).lower()) == json.loads(json.dumps(want).lower())
    if ok:
        if kind[0] == "siglist":
            ctx.counters["siglist.entries_checked"] += kind[1]
        elif kind[0] == "regdump":
            ctx.counters["regdump.lines_checked"] += kind[1]
        elif kind[0] == "ffdc":
            ctx.counters["ffdc.checked"] += 1
        else:
            ctx.counters["scratch.checked"] += 1
        return
    detail = ""
    if isinstance(got, dict) and isinstance(want, dict):
        for k in want:
            g, w = got.get(k), want[k]
            if g != w:
                if isinstance(g, list) and isinstance(w, list):
                    j = next((i for i in range(min(len(g), len(w))) if g[i] != w[i]), min(len(g), len(w)))
                    detail = "%s[%d]: shown %r, encoded %r (%d vs %d items)" % (k, j, g[j] if j < len(g) else None,
                                                                               w[j] if j < len(w) else None, len(g), len(w))
                else:
                    detail = "%s: shown %r, encoded %r" % (k, g, w)
                break
    ctx.violation("C20/%s/%s" % (how, kind[0]), "0xE500 user data (%s) [chip data %s]: %s" % (kind[0], DATA["cfg"], detail or repr(got)[:300]),
                  payload=payload[:600])


def check_ud(ctx, rng, ud, via_pel, u):
    sub, payload, want, kind = gen_ud(rng)
    ctx.current = {"subtype": sub, "payload": payload[:600], "chipdata": DATA["cfg"]}
    ctx.case(bytes([sub]) + payload + DATA["cfg"].encode(), True)
    ctx.counters["ud.sections"] += 1
    if not via_pel:
        try:
            got = json.loads(ud.parseUDToJson(sub, rng.randrange(256), memoryview(payload)))
        except Exception as e:
            ctx.violation("C20/ud-error/" + kind[0], "oe500.parseUDToJson(%d, ...) [chip data %s] raised %r" % (sub, DATA["cfg"], e),
                          payload=payload[:600])
            return
        compare_ud(ctx, got, want, kind, payload, "ud")
        return
    s1 = pm.sec_ud(rng, u, "O", 0xE500, sub, rng.randrange(256), payload, expect_mode="plugin")
    s2 = pm.sec_ud(rng, u, "B", 0xE500, sub, 1, payload, ext_creator="O", expect_mode="plugin")
    pel = pm.Pel("O", pm.gen_ph(rng, u, "O"), pm.gen_uh(rng, "O"), [s1, pm.gen_mt(rng, u, "O"), s2])
    o = harness.decode(pel.encode())
    if o.kind != "doc":
        ctx.violation("C20/pel-not-decoded", "PEL with 0xE500 user data not decoded: %r" % (o.exc,), payload=payload[:600])
        return
    for name in ("User Data", "Extended User Data"):
        entry = o.doc.get(name, {})
        got = {k: v for k, v in entry.items() if k not in ("Section Version", "Sub-section type", "Created by")}
        compare_ud(ctx, got, want, kind, payload, "pel")


def check_src(ctx, rng, u, neighbour_first=False):
    if neighbour_first or rng.random() < 0.15:
        # a neighbour in the same process: a BMC-created PEL whose SRC is NOT a hardware-diagnostics one but reads alike - a
        # hostboot code (BC..) or another type with E5 in the component position, an E5 component under another creator.
        # Whatever it is shown as, it must not change what the hardware-diagnostics SRCs after it are shown as.
        cr = "O" if neighbour_first else rng.choice("OOOBM")
        t = "BC" if neighbour_first else rng.choice(["BC", "BC", "11", "B7"])
        ref = (t + "%02X" % rng.randrange(256) if t != "11" else "1100") + rng.choice(["E5", "e5"]) + "%02X" % rng.randrange(256)
        s = pm.gen_src(rng, u, True, cr, srctype=t, refcode=ref.upper() if rng.random() < 0.8 else ref, ncallouts=0)
        o = harness.decode(pm.Pel(cr, pm.gen_ph(rng, u, cr), pm.gen_uh(rng, cr), [s, pm.gen_mt(rng, u, cr)]).encode())
        ctx.counters["src.lookalike_neighbours"] += 1
        ctx.see("src.lookalike_outcome", o.kind)
    a, b, c = rand_sig(rng)
    reason = rng.choice(["10", "10", "11", "00", "FF", "1F"])
    # BMC reference code: "BD" + subsystem + reason code; the component is the reason code's first byte (E5 = hw diags)
    ref = "BD" + "%02X" % rng.randrange(256) + rng.choice(["E5", "E5", "e5"]) + reason
    wc = rng.choice([9, 9, 8, 7, 6, 5])
    s = pm.gen_src(rng, u, True, "O", srctype="BD", refcode=ref, wordcount=wc, ncallouts=rng.choice([0, 1]))
    # overwrite words 6..8 with the signature
    body = bytearray(s.body)
    words = list(s.m["words"])
    for i, w in zip((4, 5, 6), (a, b, c)):
        words[i] = int(w, 16)
        body[8 + 4 * i:12 + 4 * i] = bytes.fromhex(w)
    s.body = bytes(body)
    pel = pm.Pel("O", pm.gen_ph(rng, u, "O"), pm.gen_uh(rng, "O"), [s, pm.gen_mt(rng, u, "O")])
    data = pel.encode()
    ctx.current = {"refcode": ref, "words6to8": [a, b, c], "wordcount": wc, "chipdata": DATA["cfg"]}
    ctx.case(data, True)
    o = harness.decode(data)
    if o.kind != "doc":
        ctx.violation("C20/pel-not-decoded", "PEL with a hardware-diagnostics SRC not decoded: %r" % (o.exc,), data=data)
        return
    det = o.doc.get("Primary SRC", {}).get("SRC Details")
    shown = [("%08X" % words[i]) if (i + 2) <= wc else "00000000" for i in (4, 5, 6)]
    want = {"Primary Attention": "system checkstop" if ref[6:8] == "10" else "secondary analysis",
            "Signature Description": sig_ref(*shown)}
    ctx.counters["src.details_checked"] += 1
    if det != want:
        k = "Primary-Attention" if not isinstance(det, dict) or det.get("Primary Attention") != want["Primary Attention"] else "Signature"
        ctx.violation("C20/src/" + k, "SRC %s words 6..8 = %s (valid word count %d) [chip data %s]: SRC Details %r, expected %r" %
                      (ref, shown, wc, DATA["cfg"], det, want), data=data)
