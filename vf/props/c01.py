"""C01 - every section decoded once, in order, from exactly its own bytes."""
import random

from vf import gen, harness, tables
from vf import pelmodel as pm
from vf.props import fidelity

ID = "C01"
LEVEL = "exploration"
RULE = ("well-formed PELs built by the independent encoder (vf/pelmodel.py): random section sequences over PS SS EH MT LP "
        "UD ED, the nine hexdump-only ids and unknown ids (incl. 'ID','PE','MR'), a systematic sweep of every ordered "
        "pair of section kinds, 255-section logs, payload-length and variable-length-field sweeps; plugins on/off. "
        "A case is non-trivial if it has at least one optional section; distinct = distinct encoded bytes.")
ASSUMPTIONS = ["the encoder in vf/pelmodel.py lays sections out as the PEL format defines them",
               "well-formedness domain of DESIGN.md 3.1 (PH/UH ids not reused, one PS, payloads >= 1 byte, ...)"]
OPT_LABELS = ["PS", "SS", "EH", "MT", "LP", "UD", "ED"] + pm.HEXDUMP_KINDS + ["UNK"]
ALL_PAIRS = len(OPT_LABELS) ** 2 - 1 + len(OPT_LABELS) + 1


def plan(tier, seed):
    n = 16
    per = 1500 if tier == "quick" else 40000
    specs = [{"mode": "random", "n": per, "rseed": seed * 1000 + i} for i in range(n - 2)]
    specs.append({"mode": "pairs", "rseed": seed * 1000 + 900, "reps": 1 if tier == "quick" else 12})
    specs.append({"mode": "sweeps", "rseed": seed * 1000 + 901, "reps": 1 if tier == "quick" else 10})
    return specs


def minimums(tier):
    return {"names.checked": 15000 if tier == "quick" else 400000, "cursor.checked": 15000 if tier == "quick" else 400000,
            "ident.checked": 10000, "cursor.reads": 100000}


def finish(m, tier):
    pairs = m["sets"].get("adjacent", set())
    extra = {"adjacent_pairs_seen": len(pairs), "adjacent_pairs_possible": ALL_PAIRS}
    need = 0.9 if tier == "quick" else 1.0
    if len(pairs) < need * ALL_PAIRS:
        m["failed"].append({"shard": "-", "why": "adjacency coverage %d/%d below %.0f%%" % (len(pairs), ALL_PAIRS, need * 100)})
    return extra


def mk(label, rng, u, creator):
    if label == "PS":
        return pm.gen_src(rng, u, True, creator)
    if label == "SS":
        return pm.gen_src(rng, u, False, creator)
    if label == "EH":
        return pm.gen_eh(rng, u, creator)
    if label == "MT":
        return pm.gen_mt(rng, u, creator)
    if label == "LP":
        return pm.gen_lp(rng, u, creator)
    if label == "UD":
        return gen.gen_user_section(rng, u, creator, False)
    if label == "ED":
        return gen.gen_user_section(rng, u, creator, True)
    if label == "UNK":
        return pm.sec_generic(rng, u, rng.choice(gen.UNKNOWN_IDS))
    return pm.sec_generic(rng, u, label)


def run(spec, ctx):
    spec["focus"] = "C01"
    fidelity.setup(spec)
    rng = random.Random(spec["rseed"])
    u = pm.Uniq(spec["shard"] * 10_000_000)
    reg = harness.registry_model()
    if spec["mode"] == "random":
        for i in range(spec["n"]):
            plugins = rng.random() < 0.7
            pel = gen.gen_pel(rng, u, reg=reg, plugins_enabled=plugins)
            fidelity.run_case(pel, ctx, "C01", allow_plugins=plugins, reg=reg)
    elif spec["mode"] == "pairs":
        for _ in range(spec["reps"]):
            for a in OPT_LABELS:
                for b in OPT_LABELS:
                    if a == b == "PS":
                        continue
                    creator = rng.choice("OBHMX")
                    secs = [mk(a, rng, u, creator), mk(b, rng, u, creator)]
                    if rng.random() < 0.5:
                        secs.append(mk(rng.choice(OPT_LABELS[1:]), rng, u, creator))
                    pel = pm.Pel(creator, pm.gen_ph(rng, u, creator), pm.gen_uh(rng, creator), secs)
                    fidelity.run_case(pel, ctx, "C01", reg=reg)
    else:
        for _ in range(spec["reps"]):
            sweeps(rng, u, ctx, reg)


def sweeps(rng, u, ctx, reg):
    def one(secs, creator="O", plugins=True):
        pel = pm.Pel(creator, pm.gen_ph(rng, u, creator), pm.gen_uh(rng, creator), secs)
        fidelity.run_case(pel, ctx, "C01", allow_plugins=plugins, reg=reg)
    tail = lambda c="O": pm.gen_mt(rng, u, c)
    # 255 sections (the one-byte section count's limit) and other counts
    for n in (253, 253, 200, 100, 64):
        kinds = [rng.choice(["MT", "UD", "UNK", "EI", "LP", "SS", "EH"]) for _ in range(n)]
        one([mk(k, rng, u, "O") for k in kinds])
    one([pm.gen_mt(rng, u, "B") for _ in range(253)], "B")
    # payload lengths, incl. the 16-bit maximum
    for n in [1, 2, 15, 16, 17, 4095, 4096, 65527]:
        one([pm.sec_generic(rng, u, b"XX", pm.gen_payload(rng, u, n)), tail()])
        one([pm.sec_ud(rng, u, "O", 0x3000, 0, 1, pm.gen_payload(rng, u, n)), tail()])
        if n <= 65523:
            one([pm.sec_ud(rng, u, "O", 0x3000, 0, 1, pm.gen_payload(rng, u, n), ext_creator="B"), tail()])
    one([pm.sec_ud(rng, u, "O", 0x3000, 0, 1, pm.gen_payload(rng, u, 65523), ext_creator="B"), tail()])
    # symptom id length, LP name / target counts
    for n in list(range(0, 256, 12)) + [255, 1, 3]:
        one([pm.gen_eh(rng, u, "O", symlen=n), tail()])
    for nt in [0, 1, 2, 3, 4, 5, 127, 128, 254, 255]:
        for nl in [0, 4, 252]:
            one([pm.gen_lp(rng, u, "O", ntargets=nt, namelen=nl), tail()])
    # callouts: 0..12, each followed by the three substructure-named unknown sections
    for nc in range(0, 13):
        for sid in (b"ID", b"PE", b"MR", b"MT"):
            s = pm.gen_src(rng, u, True, "O", ncallouts=nc)
            one([s, pm.sec_generic(rng, u, sid)] if sid != b"MT" else [s, tail()])
    # every known creator, unknown creators, plugins off
    for c in pm.KNOWN_CREATORS + "XQ?~ ":
        for plugins in (True, False):
            pel = gen.gen_pel(rng, u, creator=c, reg=reg, plugins_enabled=plugins)
            fidelity.run_case(pel, ctx, "C01", allow_plugins=plugins, reg=reg)
