"""C17 - an I/O drawer dump is split into ILOG and trace regions that partition it."""
import os
import random
import subprocess

from vf import env, harness, iogen
from vf import iomodels as im

ID = "C17"
LEVEL = "exploration"
RULE = ("dumps built from ILOG bytes + every subset/ordering of the six buffer headers (adjacent headers, header at offset 0, "
        "buffer names without the 4-byte start inside ILOG data, header start without a valid name, ILOG lengths not a "
        "multiple of 8), hostile trace buffers; decoded via parse_dump_data, via parse_dump_file on both hex-dump text formats "
        "(aligned/stripped short last lines, comment lines) and via `python -m io_drawer.dump`.  Monitors: a wrapper over "
        "parse_dump_data compares the output with the model built from the C14/C15 models; wrappers over the names "
        "dump.parse_ilog_data / dump.parse_trace_data log the exact slices handed down and assert they are, in order, a "
        "partition of the input (ILOG first, then traces).  Non-trivial: at least one recognised header; distinct = bytes.")
ASSUMPTIONS = ["when a buffer name occurs more than once its first occurrence is the recognised header", "see C14/C15 assumptions for the region decoders"]
CUR = {"table": None, "strings": None, "slices": None}


def install(ctx):
    harness.import_all_repo_modules()
    import io_drawer.dump as dump
    o_il, o_tr, o_dd = dump.parse_ilog_data, dump.parse_trace_data, dump.parse_dump_data
    # four-character constants the decoders themselves carry, other than the six buffer names: decoy names after a header start
    import sys
    from vf import iogen, iomodels
    carried = harness.harvest_constants(
        [m for m in sys.modules if m.startswith("io_drawer")],
        lambda v: isinstance(v, (str, bytes)) and len(v) == 4 and (v if isinstance(v, str) else v.decode("latin-1")).isalnum())
    carried = sorted({(v if isinstance(v, str) else v.decode("latin-1")) for v in carried} - set(iomodels.BUFFER_NAMES))
    for nm in carried:
        if nm.isascii() and nm not in iogen.OTHER_NAMES:
            iogen.OTHER_NAMES.append(nm)
            if nm.upper() not in iogen.OTHER_NAMES + iomodels.BUFFER_NAMES:
                iogen.OTHER_NAMES.append(nm.upper())
    ctx.counters["decoy_names.carried_by_the_code"] += len(carried)

    def parse_ilog_data(data, hdr):
        if CUR["slices"] is not None:
            CUR["slices"].append(("ilog", bytes(data)))
        return o_il(data, hdr)

    def parse_trace_data(data, sf):
        if CUR["slices"] is not None:
            CUR["slices"].append(("trace", bytes(data)))
        return o_tr(data, sf)
    dump.parse_ilog_data, dump.parse_trace_data = parse_ilog_data, parse_trace_data

    def parse_dump_data(data, header_file, string_file):
        CUR["slices"] = []
        try:
            res = o_dd(data, header_file, string_file)
        finally:
            slices, CUR["slices"] = CUR["slices"], None
        if CUR["table"] is None:
            return res
        d = bytes(data)
        ctx.counters["dump.calls_checked"] += 1
        alts = im.dump_ref(d, CUR["table"], CUR["strings"])
        if list(res) not in alts:
            want = alts[0]
            k = 0
            while k < min(len(res), len(want)) and res[k] == want[k]:
                k += 1
            ctx.violation("C17/output", "parse_dump_data line %d: shown %r, the model says %r (%d vs %d lines; regions %s)" %
                          (k, res[k] if k < len(res) else None, want[k] if k < len(want) else None, len(res), len(want),
                           im.dump_regions(d)), data=d[:800])
        # partition monitor on the slices really handed to the region decoders
        if d:
            regs = im.dump_regions(d)
            ctx.counters["dump.partitions_checked"] += 1
            if b"".join(s for _, s in slices) != d:
                ctx.violation("C17/regions-do-not-partition-input", "the regions handed to the decoders (%s) do not cover the %d "
                              "input bytes exactly once in address order" % ([(k, len(s)) for k, s in slices], len(d)), data=d[:800])
            elif [k for k, _ in slices] != [k for k, _, _ in regs] or [len(s) for _, s in slices] != [b - a for _, a, b in regs]:
                ctx.violation("C17/region-boundaries", "regions %s, the recognised headers give %s" %
                              ([(k, len(s)) for k, s in slices], regs), data=d[:800])
            ctx.see("nregions", len(regs))
        elif res != [] or slices:
            ctx.violation("C17/empty-input", "empty input produced %r" % (res[:3],))
        return res
    dump.parse_dump_data = parse_dump_data
    return dump


def plan(tier, seed):
    n = 25 if tier == "quick" else 1200
    specs = [{"mode": "synthetic", "n": n, "rseed": seed * 1000 + i, "optimize": i % 4 == 3} for i in range(13)]
    specs += [{"mode": "shipped", "which": w, "n": 40 if tier == "quick" else 1500, "rseed": seed * 1000 + 100 + k}
              for k, w in enumerate(["mex", "nimitz"])]
    specs[-1]["optimize"] = True          # python -O: assert statements are compiled away
    specs += [{"mode": "script", "n": 12 if tier == "quick" else 300, "rseed": seed * 1000 + 200}]
    return specs


def minimums(tier):
    return {"dump.calls_checked": 3000, "dump.partitions_checked": 2500, "file.format_checks": 1500, "script.runs": 10,
            "workload.header_at_0": 30, "workload.no_headers": 100, "workload.six_headers": 50,
            "workload.repeated_name": 100, "file.raw_text_column": 300, "file.beyond_64k_checks": 10, "script.runs_with_own_tables": 10}


def script_with_tables(ctx, prop, rng, root, n, ilog_only=False):
    """The stand-alone formatter (python -m io_drawer.dump) given its own PTE table / trace string file with -d / -s: as an
    absolute path, as a path relative to the current directory, and as a relative path that happens to be called like a
    shipped file (mex_pte.h in the current directory is the USER's file).  Compared with the model on the written tables."""
    import subprocess
    for i in range(n):
        which = rng.choice(["mex", "nimitz"])
        table, strings = iogen.gen_table(rng, rng.choice([3, 8, 20])), iogen.gen_strings(rng)
        wd = os.path.join(root, "script_cwd_%d" % i)
        os.makedirs(wd, exist_ok=True)
        style = rng.choice(["absolute", "relative", "relative-shipped-name", "relative-subdir"])
        hname = {"relative-shipped-name": "%s_pte.h" % which}.get(style, "my_table_%d.h" % i)
        sname = {"relative-shipped-name": "%sStringFile" % which}.get(style, "my_strings_%d" % i)
        sub = "tables" if style == "relative-subdir" else ""
        os.makedirs(os.path.join(wd, sub), exist_ok=True)
        hdr, sf = os.path.join(wd, sub, hname), os.path.join(wd, sub, sname)
        im.write_pte_table(hdr, table, rng, style=rng.randrange(4))
        im.write_string_file(sf, strings, rng)
        mt, ms = iogen.model_table(table), iogen.model_strings(strings)
        d = iogen.gen_ilog(rng, table, rng.randrange(1, 12)) if ilog_only else iogen.gen_dump(rng, table, strings)
        while not d or len(d) > 60000:
            d = iogen.gen_dump(rng, table, strings)
        with open(os.path.join(wd, "dump.txt"), "w") as f:
            f.write("\n".join((im.render_bmc if i % 2 else im.render_old)(d)) + "\n")
        harg = hdr if style == "absolute" else os.path.join(sub, hname)
        sarg = sf if style == "absolute" else os.path.join(sub, sname)
        argv = ["dump.txt", "-t", which, "-d", harg] + ([] if ilog_only and rng.random() < 0.5 else ["-s", sarg])
        ctx.current = {"argv": argv, "cwd": "a directory holding the dump and the tables", "data": d[:600], "table": [list(t) for t in mt][:30]}
        ctx.case("scriptd" + style + d.hex() + repr(mt), True)
        p = subprocess.run([env.PY, "-m", "io_drawer.dump"] + argv, env=env.child_env(), cwd=wd, stdout=subprocess.PIPE,
                           stderr=subprocess.PIPE, timeout=120)
        ctx.count("script.runs_with_own_tables")
        ctx.see("script.table_path_style", style)
        got = p.stdout.decode("utf-8", "replace").split("\n")
        if got and got[-1] == "":
            got.pop()
        want = im.dump_ref(d, mt, ms)        # (ILOG-only dumps have no trace region: the string file does not matter)
        # compared as TEXT, not line by line: a %c argument may be a line feed, which is one line of the decode and two of the
        # printed text
        ok = p.returncode == 0 and any("\n".join(got) == "\n".join(w) for w in want)
        if not ok:
            ctx.violation("%s/script-own-tables/%s" % (prop, style), "python -m io_drawer.dump %s (run in the directory that holds these "
                          "files) rc=%d printed %d lines that differ from the decode with the given table; stderr=%r first lines %r" %
                          (" ".join(argv), p.returncode, len(got), p.stderr.decode("utf-8", "replace")[-200:], got[:4]), data=d[:600])
        import shutil
        shutil.rmtree(wd, ignore_errors=True)


def drive_big(ctx, dump, rng, hdr, sf, table, strings, root):
    """a dump beyond 64 KiB whose second 64 KiB repeat rows of the first (memory that holds a stale copy): in the BMC format
    the 4-digit address column wraps, so different rows of the dump are textually identical lines - all of them are data"""
    CUR["table"], CUR["strings"] = table, strings
    block = iogen.gen_dump(rng, table, strings)[:0x8000]
    block += bytes(rng.randrange(256) for _ in range(64)) * ((0x10000 - len(block)) // 64 + 1)
    block = block[:0x10000]
    d = block + block[:rng.choice([0x10000, 0x4000, 0x230])] + bytes(rng.randrange(256) for _ in range(rng.randrange(40)))
    try:
        base = dump.parse_dump_data(memoryview(d), hdr, sf)
    except Exception as e:
        ctx.violation("C17/decoder-raised/" + type(e).__name__, "parse_dump_data raised %r on a %d-byte dump" % (e, len(d)))
        return
    for fmt, render in (("bmc", im.render_bmc), ("old", im.render_old)):
        path = os.path.join(root, "bigdump_%s.txt" % fmt)
        with open(path, "w", encoding="utf-8") as f:
            f.write("\n".join(render(d)) + "\n")
        ctx.count("file.beyond_64k_checks")
        ctx.case("big" + fmt + str(len(d)) + d[:64].hex(), True)
        try:
            got = dump.parse_dump_file(path, hdr, sf)
        except Exception as e:
            ctx.violation("C17/decoder-raised/" + type(e).__name__, "parse_dump_file raised %r" % (e,))
            continue
        if list(got) != list(base):
            ctx.violation("C17/file-vs-bytes/" + fmt, "parse_dump_file on the %s rendering of a %d-byte dump (rows repeat beyond 64 KiB) "
                          "gives %d lines, parse_dump_data on the bytes gives %d" % (fmt, len(d), len(got), len(base)))
        os.unlink(path)


def drive(ctx, dump, rng, hdr, sf, table, strings, root, tag, k):
    CUR["table"], CUR["strings"] = table, strings
    d = iogen.gen_dump(rng, table, strings)
    regs = im.dump_regions(d)
    if len(regs) == 1:
        ctx.count("workload.no_headers")
    if len(regs) == 7:
        ctx.count("workload.six_headers")
    if len(regs) > 1 and regs[0][2] == 0:
        ctx.count("workload.header_at_0")
    if any(d.count(im.HDR_START + n.encode()) > 1 for n in im.BUFFER_NAMES):
        ctx.count("workload.repeated_name")
    ctx.current = {"data": d[:800], "regions": regs}
    ctx.case(tag + d.hex(), len(regs) > 1, sample={"regions": regs, "len": len(d)} if k < 2 else None)
    try:
        v = iogen.view_of(rng, d)
        base = dump.parse_dump_data(v if isinstance(v, memoryview) else memoryview(v), iogen.path_of(rng, hdr), iogen.path_of(rng, sf))
    except Exception as e:
        ctx.violation("C17/decoder-raised/" + type(e).__name__, "parse_dump_data raised %r" % (e,), data=d[:800])
        return d
    if rng.random() < 0.1:
        dump.parse_dump_data(memoryview(b""), hdr, sf)
    # the same dump written as a hex-dump text file, both formats
    if 0 < len(d) < 60000:
        for fmt in ("bmc", "old"):
            render = im.render_bmc if fmt == "bmc" else im.render_old
            raw = rng.random() < 0.3
            if fmt == "old" and rng.random() < 0.25:
                lines = render(d, lower=rng.random() < 0.3, strip=rng.random() < 0.3, trim=rng.choice(["rstrip", "notext"]))
                raw = False
                ctx.count("file.old_format_trimmed_lines")
            else:
                lines = render(d, lower=rng.random() < 0.3, strip=rng.random() < 0.3, raw=raw)
            if raw and any(b in im.RAW_TEXT for b in d):
                ctx.count("file.raw_text_column")
            if rng.random() < 0.4:
                banner = ["# IO drawer dump", "", "Collected by: tool x", "-----", "  ", "note: see below"]
                lines = [rng.choice(banner) for _ in range(rng.choice([1, 2, 5, 16, 17, 40]))] + lines + ["", "-- end --"]
            path = os.path.join(root, "dump_%s.txt" % fmt)
            with open(path, "w", encoding="utf-8") as f:
                f.write("\n".join(lines) + "\n")
            ctx.count("file.format_checks")
            try:
                got = dump.parse_dump_file(path, hdr, sf)
            except Exception as e:
                ctx.violation("C17/decoder-raised/" + type(e).__name__, "parse_dump_file raised %r" % (e,), data=d[:800])
                continue
            if list(got) != list(base):
                ctx.violation("C17/file-vs-bytes/" + fmt, "parse_dump_file on the %s rendering of %d bytes gives %d lines, "
                              "parse_dump_data on the bytes gives %d" % (fmt, len(d), len(got), len(base)), data=d[:800])
    return d


def run(spec, ctx):
    harness.repo()
    dump = install(ctx)
    rng = random.Random(spec["rseed"])
    root = harness.scratch_root()
    from io_drawer.drawer_type import MEX_DRAWER_TYPE, NIMITZ_DRAWER_TYPE
    if spec["mode"] == "synthetic":
        for i in range(spec["n"]):
            table, strings = iogen.gen_table(rng), iogen.gen_strings(rng)
            hdr, sf = os.path.join(root, "t%d.h" % (i % 2)), os.path.join(root, "s%d" % (i % 2))   # reused paths, rewritten files
            im.write_pte_table(hdr, table, rng, style=rng.randrange(4) | (16 if rng.random() < 0.2 else 0) | (128 if rng.random() < 0.2 else 0))
            im.write_string_file(sf, strings, rng)
            for k in range(12):
                drive(ctx, dump, rng, hdr, sf, iogen.model_table(table), iogen.model_strings(strings), root, "syn%d" % i, i * 12 + k)
            if i % 12 == 1:
                drive_big(ctx, dump, rng, hdr, sf, iogen.model_table(table), iogen.model_strings(strings), root)
        return
    if spec["mode"] == "shipped":
        dt = MEX_DRAWER_TYPE if spec["which"] == "mex" else NIMITZ_DRAWER_TYPE
        hdr, sf = dt.get_header_file_path(), dt.get_trace_string_file_path()
        table, _ = im.parse_shipped_pte_table(hdr)
        strings = im.parse_shipped_string_file(sf)
        for i in range(spec["n"]):
            drive(ctx, dump, rng, hdr, sf, table, strings, root, spec["which"], i + 5)
        return
    # stand-alone script
    script_with_tables(ctx, "C17", rng, root, spec["n"])
    for i in range(spec["n"]):
        which = rng.choice(["mex", "nimitz"])
        dt = MEX_DRAWER_TYPE if which == "mex" else NIMITZ_DRAWER_TYPE
        hdr, sf = dt.get_header_file_path(), dt.get_trace_string_file_path()
        table, _ = im.parse_shipped_pte_table(hdr)
        strings = im.parse_shipped_string_file(sf)
        CUR["table"], CUR["strings"] = table, strings
        d = iogen.gen_dump(rng, table, strings)
        while not d or len(d) > 60000:
            d = iogen.gen_dump(rng, table, strings)
        path = os.path.join(root, "script_dump.txt")
        with open(path, "w") as f:
            f.write("\n".join((im.render_bmc if i % 2 else im.render_old)(d)) + "\n")
        ctx.current = {"data": d[:800], "drawer": which}
        ctx.case("script" + d.hex(), True)
        p = subprocess.run([env.PY, "-m", "io_drawer.dump", path, "-t", which], env=env.child_env(), stdout=subprocess.PIPE,
                           stderr=subprocess.PIPE, timeout=120)
        ctx.count("script.runs")
        want = dump.parse_dump_data(memoryview(d), hdr, sf)
        got = p.stdout.decode("utf-8", "replace").split("\n")
        if got and got[-1] == "":
            got.pop()
        if p.returncode != 0 or "\n".join(got) != "\n".join(want):      # as text: a %c argument may be a line feed
            ctx.violation("C17/script", "python -m io_drawer.dump rc=%d printed %d lines, the decoders give %d; stderr=%r" %
                          (p.returncode, len(got), len(want), p.stderr[-300:]), data=d[:800])
