"""C12 - --clean never deletes a PEL whose decoded output was not completely written."""
import io
import json
import os
import random
import shutil
import subprocess
import sys

from vf import dirs, env, faults, gen, harness
from vf import pelmodel as pm

ID = "C12"
LEVEL = "fault_enumeration"
RULE = ("scenarios {-j -c, -j -c -o O, -f X -c with stdout = file/pipe//dev/full/closed pipe} x PEL {small, output > 64 KiB, "
        "undecodable, filtered out, bad PH id} (+ a second PEL in the directory).  Each scenario first runs under strace "
        "(-f -y, openat/write/close/unlink/rename...) without faults to find the syscall window from the output's first "
        "syscall to exit, then EVERY syscall in that window gets an error injection fitting the call (openat EACCES/ENOSPC, "
        "write ENOSPC/EIO/EPIPE once and persistently, close EIO, unlink EACCES) and a crash point (SIGKILL on entry) via "
        "strace -e inject.  An offline checker over the recorded syscall log demands that a successful unlink(input) is "
        "preceded by open/complete successful writes/close(=0) of that input's output; the post-state is checked too "
        "(input missing => output complete and equal to the expected document).  An in-process twin (failing file proxy "
        "shadowing peltool's open, failing sys.stdout, os.remove audit events) repeats this over many PELs x every operation "
        "index.  Non-trivial: a run with an injected fault or a PEL that must not be deleted; distinct = scenario x fault.")
ASSUMPTIONS = ["power-loss durability (fsync ordering) is out of reach of a process-level monitor and not claimed",
               "a crash after a successful close and before the unlink leaves both files - allowed",
               "strace fault injection (ptrace) is available; otherwise the strace part is inconclusive"]
WATCHDOG = {"quick": 900, "thorough": 5 * 3600}


def plan(tier, seed):
    n = 1 if tier == "quick" else 12
    # quick: 12 shards x 2 scenarios cover all 23 scenarios; thorough repeats them with other PELs
    specs = [{"mode": "strace", "scen": i, "n": 2 * n, "rseed": seed * 1000 + i} for i in range(12)]
    m = 90 if tier == "quick" else 1500
    specs += [{"mode": "twin", "n": m, "rseed": seed * 1000 + 100 + i} for i in range(4)]
    return specs


def minimums(tier):
    return {"strace.runs": 150, "strace.injected_runs": 100, "strace.kill_runs": 40, "strace.error_runs": 60,
            "trace.unlink_checked": 20, "poststate.checked": 150, "twin.runs": 1500, "twin.fault_runs": 1000,
            "twin.remove_events": 200, "must_not_delete.cases": 20, "nostdout.runs": 15,
            "twin.exact_block_multiple_documents": 8, "twin.prior_output_of_same_log": 15}


# (mode, pel variant, stdout kind)
SCENARIOS = [("json", "small", None), ("json-o", "small", None), ("file", "small", "file"), ("file", "small", "pipe"),
             ("file", "small", "devfull"), ("file", "small", "closed"), ("json", "big", None), ("file", "big", "file"),
             ("json", "undecodable", None), ("file", "undecodable", "file"), ("json-o", "filtered", None),
             ("file", "filtered", "pipe"), ("file", "badph", "file"), ("json", "badph", None), ("file", "big", "pipe"),
             ("json-o", "big", None), ("filehex", "small", "devfull"), ("filehex", "small", "file"), ("filehex", "small", "closed"),
             ("filehex", "small", "pipe"), ("filehex", "big", "devfull"), ("filehex", "filtered", "file"),
             ("filehex", "undecodable", "pipe")]


def make_pel(rng, u, variant):
    """(bytes, expected text or None) under the default selection (no -E)."""
    sev, flags = 0x40, 0xA000            # serviceable, customer viewable
    if variant == "filtered":
        sev, flags = 0x00, 0x0000        # informational, not selected by default
    kinds = [("MT", 3), ("EH", 3), ("UD", 3), ("SS", 2)]
    pel = gen.gen_pel(rng, u, sev=sev, flags=flags, nopt=rng.choice([1, 2, 3]), kinds=kinds, creator="O", primary=True)
    if variant == "big":
        for _ in range(4):
            pel.sections.append(pm.sec_generic(rng, u, b"EI", pm.gen_payload(rng, u, 4096)))
    if variant.startswith("exact"):
        # a document whose text is EXACTLY 64 KiB / 128 KiB long (whole output blocks): JSON user data with a string value
        # sized to the character
        target = {"exact64k": 0x10000, "exact128k": 0x20000}[variant]
        def build(ns):
            secs = [pm.sec_ud(rng, u, "O", 0x2000, 1, 1, gen.nul_pad(json.dumps({"K%d" % k: "a" * n}).encode()), expect_mode="json")
                    for k, n in enumerate(ns)]
            return pm.Pel("O", pel.ph, pel.uh, secs)
        ns = [60000] if target == 0x10000 else [50000, 50000, 20000]
        for _ in range(6):
            cand = build(ns)
            ln = len(harness.decode(cand.encode(), harness.make_config()).text or "")
            if ln == target:
                break
            ns[-1] = max(1, min(65000, ns[-1] + target - ln))
        pel = cand
    data = pel.encode()
    if variant == "undecodable":
        data = data[:len(data) - rng.randrange(1, 20)]
    if variant == "badph":
        data = b"XX" + data[2:]
    o = harness.decode(data, harness.make_config())
    exp = o.text if o.kind == "doc" else None
    if variant.startswith("exact"):
        assert exp and len(exp) in (0x10000, 0x20000), (variant, len(exp or ""))
    elif variant in ("small", "big"):
        assert exp, (variant, o.exc)
    else:
        assert exp is None or variant == "filtered" and not exp, variant
    return pel, data, (exp or None)


class Scen:
    def __init__(self, root, mode, pelv, stdout_kind, rng, u):
        self.root, self.mode, self.pelv, self.sk = root, mode, pelv, stdout_kind
        self.pel, self.data, self.expect = make_pel(rng, u, pelv)
        self.name = rng.choice(["a.pel", "2024010112000000_%08X" % self.pel.eid, "x.y.z"])
        # a second, always decodable PEL next to it (directory modes)
        self.pel2, self.data2, self.expect2 = make_pel(rng, u, "small")
        self.name2 = "zz_other_%08X" % self.pel2.eid
        self.dir = os.path.join(root, "in")
        self.out = os.path.join(root, "out") if mode == "json-o" else self.dir
        self.stdout_file = os.path.join(root, "stdout.txt")
        self.seen_paths = set()

    def fresh(self):
        for d in (self.dir, os.path.join(self.root, "out")):
            shutil.rmtree(d, ignore_errors=True)
            os.makedirs(d)
        self.P = os.path.join(self.dir, self.name)
        with open(self.P, "wb") as f:
            f.write(self.data)
        self.inputs = {self.P: (self.data, self.expect, self.pel)}
        if not self.mode.startswith("file"):
            self.Q = os.path.join(self.dir, self.name2)
            with open(self.Q, "wb") as f:
                f.write(self.data2)
            self.inputs[self.Q] = (self.data2, self.expect2, self.pel2)
        if os.path.exists(self.stdout_file):
            os.unlink(self.stdout_file)

    def argv(self):
        if self.mode == "file":
            return ["-f", self.P, "-c"]
        if self.mode == "filehex":
            return ["-f", self.P, "-x", "-c"]
        a = ["-p", self.dir, "-j", "-c"]
        if self.mode == "json-o":
            a += ["-o", self.out]
        return a

    def outpath(self, P):
        """<out dir>/<pel file>.<entry id>.json - the id's zero padding is the tool's business: take the name it used"""
        data, exp, pel = self.inputs[P]
        if os.path.isdir(self.out):
            for fn in os.listdir(self.out):
                if dirs.is_json_name(fn, os.path.basename(P), pel.eid):
                    return os.path.join(self.out, fn)
        for fn in self.seen_paths:
            if os.path.dirname(fn) == self.out and dirs.is_json_name(os.path.basename(fn), os.path.basename(P), pel.eid):
                return fn
        return os.path.join(self.out, os.path.basename(P) + "." + ("%02X" % pel.eid) + ".json")

    def open_stdout(self):
        """returns (stdout argument for subprocess, cleanup callable)"""
        if not self.mode.startswith("file") or self.sk == "pipe":
            return subprocess.PIPE, lambda: None
        if self.sk == "file":
            f = open(self.stdout_file, "wb")
            return f, f.close
        if self.sk == "devfull":
            f = open("/dev/full", "wb")
            return f, f.close
        r, w = os.pipe()
        os.close(r)
        return w, lambda: os.close(w)


def complete(content: bytes, pel, newline=False, hexdata=None):
    """the decoded document of `pel`, emitted completely (content may legitimately differ in detail when an
    injected fault hit an unrelated file such as the message registry)"""
    if hexdata is not None:
        from vf import cliparse
        try:
            return cliparse.parse_hex(content.decode()) == [hexdata]
        except Exception:
            return False
    try:
        txt = content.decode()
        if newline:
            if not txt.endswith("\n"):
                return False
        doc = json.loads(txt)
        return pm.as_hex(doc["Private Header"]["Entry Id"]) == pel.eid and "User Header" in doc
    except Exception:
        return False


def check_run(ctx, sc, events, killed, proc, inject):
    """offline trace checker + post-state oracle for one execution"""
    sc.seen_paths = {e.path for e in events if e.path and e.name in ("openat", "open", "creat")}
    label = "%s/%s/%s" % (sc.mode, sc.pelv, sc.sk or "-")
    for P, (data, exp, pel) in sc.inputs.items():
        unl = [e for e in events if e.name in ("unlink", "unlinkat") and e.path == P and e.ret == 0]
        ren = [e for e in events if e.name.startswith("rename") and e.path and e.path.split("|")[0] == P and e.ret == 0]
        if ren:
            ctx.violation("C12/input-renamed", "%s: input %s was renamed (%r)" % (label, P, ren[0]))
        if unl:
            ctx.count("trace.unlink_checked")
            u = unl[0].n
            before = events[:u]
            if exp is None:
                ctx.violation("C12/removed-although-not-decoded", "%s: unlink(%s) although the PEL is %s (inject=%s)" %
                              (label, os.path.basename(P), sc.pelv, inject), trace=[repr(e) for e in events[-14:]])
            elif sc.mode.startswith("file"):
                w = [e for e in before if e.name in ("write", "writev") and e.fd == 1]
                bad = [e for e in w if e.ret is None or e.ret < 0]
                total = sum(e.ret for e in w if e.ret and e.ret > 0)
                if bad:
                    ctx.violation("C12/unlink-after-failed-write", "%s: unlink(input) after a failed write to stdout: %r (inject=%s)" %
                                  (label, bad[0], inject), trace=[repr(e) for e in events[-14:]])
                elif total == 0:
                    ctx.violation("C12/unlink-before-output-complete", "%s: unlink(input) before anything was written to "
                                  "stdout (inject=%s)" % (label, inject), trace=[repr(e) for e in events[-14:]])
            else:
                op = sc.outpath(P)
                opens = [e for e in before if e.name in ("openat", "open", "creat") and e.path == op and e.ret is not None and e.ret >= 0]
                if not opens:
                    ctx.violation("C12/unlink-before-output-open", "%s: unlink(input) but its output %s was never opened before "
                                  "(inject=%s)" % (label, os.path.basename(op), inject), trace=[repr(e) for e in events[-14:]])
                else:
                    o = opens[-1]
                    seg = before[o.n + 1:]
                    w = [e for e in seg if e.name in ("write", "writev", "pwrite64") and e.fd == o.fd and e.path == op]
                    cl = [e for e in seg if e.name == "close" and e.fd == o.fd and e.path == op]
                    bad = [e for e in w if e.ret is None or e.ret < 0]
                    total = sum(e.ret for e in w if e.ret and e.ret > 0)
                    if bad:
                        ctx.violation("C12/unlink-after-failed-write", "%s: unlink(input) after a failed write to its output: %r "
                                      "(inject=%s)" % (label, bad[0], inject), trace=[repr(e) for e in events[-14:]])
                    elif not cl or cl[-1].ret != 0:
                        ctx.violation("C12/unlink-before-close", "%s: unlink(input) before its output was closed successfully; "
                                      "%d of %d bytes written so far (inject=%s)" % (label, total, len(exp.encode()), inject),
                                      trace=[repr(e) for e in events[-14:]])
                    elif total == 0:
                        ctx.violation("C12/unlink-before-output-complete", "%s: unlink(input) before anything was written "
                                      "(inject=%s)" % (label, inject), trace=[repr(e) for e in events[-14:]])
        # ---- post-state
        ctx.count("poststate.checked")
        present = os.path.exists(P)
        if present:
            with open(P, "rb") as f:
                if f.read() != data:
                    ctx.violation("C12/input-modified", "%s: input %s was modified (inject=%s)" % (label, os.path.basename(P), inject))
        if exp is None:
            ctx.count("must_not_delete.cases")
        if not present:
            if exp is None:
                ctx.violation("C12/removed-although-not-decoded", "%s: %s (%s) is gone after the run (inject=%s)" %
                              (label, os.path.basename(P), sc.pelv, inject))
                continue
            hexdata = data if sc.mode == "filehex" else None
            if sc.mode.startswith("file"):
                if sc.sk == "file":
                    with open(sc.stdout_file, "rb") as f:
                        got = f.read()
                    if not complete(got, pel, True, hexdata):
                        ctx.violation("C12/input-gone-output-incomplete", "%s: input removed, stdout file holds %d bytes that are "
                                      "not the complete document (%d expected) (inject=%s)" % (label, len(got), len(exp) + 1, inject))
                elif sc.sk == "pipe":
                    if proc is not None and not complete(proc.stdout or b"", pel, True, hexdata):
                        ctx.violation("C12/input-gone-output-incomplete", "%s: input removed, %d of %d bytes arrived on the pipe "
                                      "(inject=%s)" % (label, len(proc.stdout or b""), len(exp) + 1, inject))
                else:
                    ctx.violation("C12/input-gone-output-lost", "%s: input removed although stdout (%s) cannot take the document "
                                  "(inject=%s)" % (label, sc.sk, inject))
            else:
                op = sc.outpath(P)
                got = None
                if os.path.exists(op):
                    with open(op, "rb") as f:
                        got = f.read()
                if got is None or not complete(got, pel):
                    ctx.violation("C12/input-gone-output-incomplete", "%s: input %s removed, output %s (%d bytes expected) "
                                  "(inject=%s)" % (label, os.path.basename(P), "holds %d bytes" % len(got) if got is not None else "missing",
                                                   len(exp), inject))


def injection_points(events, sc):
    """(syscall, ordinal, kinds) for every syscall of the window: first output-related syscall .. exit"""
    start = None
    outs = {sc.outpath(P) for P in sc.inputs} if not sc.mode.startswith("file") else set()
    for e in events:
        if sc.mode.startswith("file"):
            if e.name in ("write", "writev") and e.fd == 1:
                start = e.n
                break
        elif e.path in outs:
            start = e.n
            break
    if start is None:
        # nothing is written (undecodable / filtered): window = the tail after the input was opened
        for e in events:
            if e.path in sc.inputs:
                start = e.n
                break
    pts = []
    for e in events[start:] if start is not None else []:
        if e.name in ("openat", "write", "close", "unlink"):
            pts.append((e.name, e.ordinal))
    return pts


ERRORS = {"openat": ["EACCES", "ENOSPC"], "write": ["ENOSPC", "EIO", "EPIPE"], "close": ["EIO"], "unlink": ["EACCES"]}


def run_strace(spec, ctx, rng, u):
    if not faults.available():
        ctx.note("strace not available")
        return
    root = harness.scratch_root()
    for k in range(spec["n"]):
        mode, pelv, sk = SCENARIOS[(spec["scen"] + 12 * k) % len(SCENARIOS)]
        sc = Scen(os.path.join(root, "s%d" % k), mode, pelv, sk, rng, u)
        os.makedirs(sc.root, exist_ok=True)
        log = os.path.join(sc.root, "trace.log")

        def one(inject):
            sc.fresh()
            so, cleanup = sc.open_stdout()
            try:
                p, ev, killed, code = faults.run(sc.argv(), log, inject=inject, stdout=so)
            finally:
                cleanup()
            ctx.count("strace.runs")
            ctx.current = {"scenario": [mode, pelv, sk], "argv": sc.argv(), "inject": inject}
            ctx.case("%s|%s|%s|%s|%d" % (mode, pelv, sk, inject, spec["rseed"]), inject is not None or sc.expect is None,
                     sample={"scenario": [mode, pelv, sk], "inject": inject, "tail": [repr(e) for e in ev[-6:]]}
                     if inject and ctx.counters["strace.runs"] % 37 == 3 else None)
            if p is None:
                ctx.count("strace.watchdog")
                return None
            if inject:
                ctx.count("strace.injected_runs")
                ctx.count("strace.kill_runs" if "signal" in inject else "strace.error_runs")
                if any(e.injected for e in ev) or killed:
                    ctx.count("strace.fault_took_effect")
            ctx.see("exit", "killed:%s" % killed if killed else "rc=%s" % code)
            check_run(ctx, sc, ev, killed, p, inject)
            return ev
        ev = one(None)
        if not ev:
            continue
        if sc.expect is not None and os.path.exists(sc.P):
            # a decodable, selected PEL with working output is expected to be cleaned (otherwise nothing is exercised)
            ctx.count("clean.not_removed")
        # a file-size limit (RLIMIT_FSIZE, what a full disk or an exhausted quota looks like to the writer): the kernel takes
        # the bytes up to the limit - write(2) returns a SHORT count - and fails the next write with EFBIG.  Real kernel
        # behaviour, no tracer: only the post-state oracle applies (input gone => output complete).
        if sc.expect is not None and (sc.mode.startswith("json") or sc.sk == "file"):
            n = len(sc.expect.encode())
            for limit in sorted({0, 1, n // 2, max(0, n - 1), 1024, 4096, 8192} if k % 2 == 0 else {rng.randrange(0, n + 1), 1024}):
                if limit > n:
                    continue
                sc.fresh()
                so, cleanup = sc.open_stdout()
                try:
                    import resource
                    import subprocess
                    p = subprocess.run([env.PY, env.PELTOOL] + list(sc.argv()), stdin=subprocess.DEVNULL,
                                       env=env.child_env(registry=True, extra={"PYTHONDONTWRITEBYTECODE": "1"}),
                                       stdout=so if so is not None else subprocess.PIPE, stderr=subprocess.PIPE, timeout=120,
                                       preexec_fn=lambda: resource.setrlimit(resource.RLIMIT_FSIZE, (limit, limit)))
                except subprocess.TimeoutExpired:
                    ctx.count("fsize.watchdog")
                    continue
                finally:
                    cleanup()
                ctx.count("fsize.runs")
                if not os.path.exists(sc.P):
                    ctx.count("fsize.input_removed")
                ctx.see("fsize.exit", p.returncode)
                ctx.current = {"scenario": [mode, pelv, sk], "argv": sc.argv(), "inject": "rlimit-fsize=%d" % limit}
                ctx.case("%s|%s|%s|fsize%d|%d" % (mode, pelv, sk, limit, spec["rseed"]), True)
                check_run(ctx, sc, [], None, p, "rlimit-fsize=%d" % limit)
        pts = injection_points(ev, sc)
        ctx.see("window", len(pts))
        writes = [p for p in pts if p[0] == "write"]
        if len(writes) > 8:        # many 8 KiB chunks: first three, middle, last three
            keep = set(writes[:3] + writes[-3:] + [writes[len(writes) // 2]])
            pts = [p for p in pts if p[0] != "write" or p in keep]
        for name, ordinal in pts:
            for err in ERRORS[name]:
                one("%s:error=%s:when=%d" % (name, err, ordinal))
            if name == "write":
                one("write:error=ENOSPC:when=%d+" % ordinal)
            one("%s:signal=KILL:when=%d" % (name, ordinal))
        shutil.rmtree(sc.root, ignore_errors=True)


# ---------------------------------------------------------------------------
# in-process twin
class FaultyFile:
    """file proxy failing at the N-th operation (1 = the open itself)"""
    def __init__(self, real, plan, log, path):
        self.real, self.plan, self.log, self.path = real, plan, log, path

    def _op(self, what):
        self.plan["op"] += 1
        self.log.append(("op", what, self.plan["op"]))
        if self.plan["op"] == self.plan["fail_at"]:
            self.plan["failed"] = what
            raise OSError(28, "No space left on device (injected at %s #%d)" % (what, self.plan["op"]))

    def write(self, s):
        self._op("write")
        return self.real.write(s)

    def writelines(self, lines):
        # the real object splits into buffered writes; model it as chunks of 4096 characters
        buf = "".join(lines)
        for i in range(0, len(buf), 4096):
            self._op("write")
            self.real.write(buf[i:i + 4096])

    def flush(self):
        self._op("flush")
        return self.real.flush()

    def close(self):
        try:
            self._op("close")
        finally:
            self.real.close()
        self.log.append(("closed", self.path))

    def __enter__(self):
        return self

    def __exit__(self, *a):
        self.close()
        return False


def run_twin(spec, ctx, rng, u):
    import builtins
    pt = harness.repo()["pt"]
    root = harness.scratch_root()
    log = []
    plan_ = {"op": 0, "fail_at": 0, "failed": None}
    state = {"out": None}

    def fake_open(file, mode="r", *a, **k):
        if "w" in mode and state["out"] is not None and state["match"](os.path.abspath(file)):
            state["out"] = os.path.abspath(file)
            plan_["op"] += 1
            log.append(("op", "open", plan_["op"]))
            if plan_["op"] == plan_["fail_at"]:
                plan_["failed"] = "open"
                raise OSError(13, "Permission denied (injected at open)")
            return FaultyFile(builtins.open(file, mode, *a, **k), plan_, log, state["out"])
        return builtins.open(file, mode, *a, **k)
    pt.open = fake_open          # shadows the builtin inside peltool only

    def hook(event, args):
        if state.get("armed") and event in ("os.remove", "os.unlink"):
            log.append(("remove", str(args[0])))
    sys.addaudithook(hook)

    class BufferedFaultyStdout:
        """block-buffered stdout (the interpreter's default for files/pipes): writes only reach the device on flush,
        when the 8 KiB buffer fills, and at interpreter exit; device operations fail as planned"""
        def __init__(self):
            self.buf, self.device = "", ""

        def _dev(self, what):
            plan_["op"] += 1
            log.append(("op", what, plan_["op"]))
            if plan_["op"] == plan_["fail_at"]:
                plan_["failed"] = "write"
                log.append(("op", "write", plan_["op"]))
                raise OSError(28, "No space left on device (injected device write)")
            self.device += self.buf
            self.buf = ""

        def write(self, s):
            self.buf += s
            if len(self.buf) > 8192:
                self._dev("devwrite")
            return len(s)

        def flush(self):
            if self.buf:
                self._dev("devwrite")

        def getvalue(self):
            return self.device

    class FaultyStdout(io.StringIO):
        def write(self, s):
            plan_["op"] += 1
            log.append(("op", "write", plan_["op"]))
            if plan_["op"] == plan_["fail_at"]:
                plan_["failed"] = "write"
                raise OSError(28, "No space left on device (injected stdout write)")
            return super().write(s)

        def flush(self):
            plan_["op"] += 1
            log.append(("op", "flush", plan_["op"]))
            if plan_["op"] == plan_["fail_at"]:
                plan_["failed"] = "flush"
                raise OSError(28, "No space left on device (injected stdout flush)")
            return super().flush()

    for i in range(spec["n"]):
        variant = rng.choice(["small", "small", "small", "big", "undecodable", "filtered", "badph"])
        if i % 30 == 7:
            variant = rng.choice(["exact64k", "exact128k"])
            ctx.count("twin.exact_block_multiple_documents")
        pel, data, exp = make_pel(rng, u, variant)
        d = os.path.join(root, "tw%d" % i)
        mode = rng.choice(["json", "json-o", "file", "filehex", "file-buffered", "filehex-buffered"])
        buffered = mode.endswith("-buffered")
        mode = mode.replace("-buffered", "")
        hexm = mode == "filehex"
        if hexm:
            mode = "file"
        outdir = os.path.join(d, "out") if mode == "json-o" else d
        name = "p_%08X.pel" % pel.eid
        P = os.path.join(d, name)
        outpath = os.path.join(outdir, name + "." + ("%02X" % pel.eid) + ".json")      # twin ids are >= 0x10000000 (below)
        fail_at = 0
        nops = None
        stale = mode != "file" and exp is not None and rng.random() < 0.25
        # an EARLIER conversion's output is still there (well-formed JSON of the very same log, written when it was intact /
        # when every PEL was selected), and now the PEL is filtered out or damaged behind its headers: nothing is written in
        # THIS run, so nothing may be deleted
        prior = None
        if mode != "file" and exp is None and variant in ("filtered", "undecodable") and rng.random() < 0.6:
            prior = harness.decode(pel.encode(), harness.make_config(every_pel=True)).text
        while True:
            shutil.rmtree(d, ignore_errors=True)
            os.makedirs(outdir)
            with open(P, "wb") as f:
                f.write(data)
            if stale:
                # what an interrupted earlier export may leave behind: same name, same size, wrong content, recent time stamp
                with open(os.path.join(outdir, name + "." + ("%02X" % pel.eid) + ".json"), "w") as f:
                    f.write(rng.choice(["\0", " ", "x"]) * len(exp))
                ctx.count("twin.stale_output")
            if prior:
                with open(os.path.join(outdir, name + "." + ("%02X" % pel.eid) + ".json"), "w") as f:
                    f.write(prior)
                ctx.count("twin.prior_output_of_same_log")
            del log[:]
            plan_.update(op=0, fail_at=fail_at, failed=None)
            state.update(out=os.path.abspath(outpath), armed=True,
                         match=lambda f, od=os.path.abspath(outdir), nm=name, e=pel.eid:
                         os.path.dirname(f) == od and dirs.is_json_name(os.path.basename(f), nm, e))
            argv = (["-f", P, "-c"] + (["-x"] if hexm else [])) if mode == "file" else \
                ["-p", d, "-j", "-c"] + (["-o", outdir] if mode == "json-o" else [])
            old = sys.argv, sys.stdout, sys.stderr
            so = (BufferedFaultyStdout() if buffered else FaultyStdout()) if mode == "file" else io.StringIO()
            sys.argv, sys.stdout, sys.stderr = ["peltool.py"] + argv, so, io.StringIO()
            rc, tb = 0, None
            try:
                try:
                    pt.main()
                except SystemExit as e:
                    rc = e.code
                except BaseException as e:        # noqa
                    tb = repr(e)
            finally:
                sys.argv, sys.stdout, sys.stderr = old
                if buffered and mode == "file":
                    try:
                        so.flush()            # what the interpreter does at exit; a failure here is only reported
                    except OSError:
                        pass
                state["armed"] = False
            ctx.count("twin.runs")
            if fail_at:
                ctx.count("twin.fault_runs")
            ctx.current = {"twin": argv, "variant": variant, "fail_at_operation": fail_at, "log": list(log)[-12:]}
            ctx.case("twin|%s|%s|%d|%d|%d" % (mode, variant, fail_at, i, spec["rseed"]), fail_at > 0 or exp is None)
            removes = [k for k, e in enumerate(log) if e[0] == "remove" and e[1] == P]
            ctx.counters["twin.remove_events"] += len(removes)
            label = "%s%s%s/%s" % (mode, "-hex" if hexm else "", "-buffered" if buffered else "", variant)
            ctx.see("twin.mode", label.split("/")[0])
            if removes:
                r = removes[0]
                if exp is None:
                    ctx.violation("C12/removed-although-not-decoded", "twin %s: os.remove(input) although the PEL is %s" % (label, variant))
                elif plan_["failed"] and log.index(("op", plan_["failed"], fail_at)) < r:
                    ctx.violation("C12/unlink-after-failed-" + ("write" if plan_["failed"] in ("write", "flush") else plan_["failed"]),
                                  "twin %s: os.remove(input) after the output failed at %s (operation %d)" %
                                  (label, plan_["failed"], fail_at))
                elif mode != "file" and not any(e[0] == "closed" for e in log[:r]):
                    ctx.violation("C12/unlink-before-close", "twin %s: os.remove(input) before the output file was closed "
                                  "(operations so far: %s)" % (label, [e[1] for e in log[:r] if e[0] == "op"]))
            gone = not os.path.exists(P)
            if gone:
                if exp is None:
                    ctx.violation("C12/removed-although-not-decoded", "twin %s: input is gone although the PEL is %s" % (label, variant))
                elif mode == "file":
                    if not complete(so.getvalue().encode(), pel, True, data if hexm else None):
                        ctx.violation("C12/input-gone-output-incomplete", "twin %s: input removed, %d of %d characters printed "
                                      "(failed operation %s)" % (label, len(so.getvalue()), len(exp) + 1, fail_at))
                else:
                    outpath = state["out"]
                    got = open(outpath).read() if os.path.exists(outpath) else None
                    if got != exp:
                        ctx.violation("C12/input-gone-output-incomplete", "twin %s: input removed, output %s (failed operation %s)" %
                                      (label, "incomplete" if got is not None else "missing", fail_at))
            elif exp is not None and not fail_at:
                ctx.count("twin.clean_run_kept_input")
            if exp is None:
                ctx.count("must_not_delete.cases")
            if nops is None:
                nops = plan_["op"]
            fail_at += 1
            if fail_at > nops + 1 or fail_at > 40:
                break
        shutil.rmtree(d, ignore_errors=True)


def run_nostdout(spec, ctx, rng, u):
    """--file --clean in a process that was started WITHOUT a standard output (descriptor 1 closed: `peltool ... >&-`, a
    daemon or cron wrapper).  Python then runs with sys.stdout = None and print() writes nothing: the document was never
    emitted, so the input stays.  Post-state oracle only (no trace needed)."""
    from vf import env
    root = harness.scratch_root()
    for k in range(spec["n"]):
        for extra in ([], ["-x"]):
            pel, data, exp = make_pel(rng, u, "small")
            P = os.path.join(root, "nostdout_%d.pel" % k)
            with open(P, "wb") as f:
                f.write(data)
            argv = [env.PY, env.PELTOOL, "-f", P, rng.choice(["-c", "--clean"])] + extra
            ctx.current = {"argv": argv[2:], "stdout": "descriptor 1 closed at start"}
            ctx.case("nostdout|%s|%d|%d" % (extra, k, spec["rseed"]), True)
            try:
                p = subprocess.run(argv, env=env.child_env(), stdin=subprocess.DEVNULL, stderr=subprocess.PIPE,
                                   preexec_fn=lambda: os.close(1), timeout=120)
            except subprocess.TimeoutExpired:
                ctx.violation("C12/no-stdout-run-hung", "peltool %s without a standard output did not finish" % argv[2:])
                continue
            ctx.count("nostdout.runs")
            if not os.path.exists(P):
                ctx.violation("C12/input-gone-output-lost", "file%s/small/no-stdout: the process had no standard output (descriptor 1 "
                              "closed), nothing was emitted, yet the input was removed (rc=%d stderr=%r)" %
                              ("hex" if extra else "", p.returncode, p.stderr.decode("utf-8", "replace")[-200:]))
            else:
                with open(P, "rb") as f:
                    if f.read() != data:
                        ctx.violation("C12/input-modified", "no-stdout run modified the input")
                os.unlink(P)


def run(spec, ctx):
    harness.repo()
    rng = random.Random(spec["rseed"])
    u = pm.Uniq(spec["shard"] * 10_000_000)
    if spec["mode"] == "strace":
        if spec["scen"] % 4 == 0:
            run_nostdout({"n": 3 if spec["n"] <= 2 else 20, "rseed": spec["rseed"]}, ctx, rng, u)
        run_strace(spec, ctx, rng, u)
    else:
        run_twin(spec, ctx, rng, u)
