"""C19 - decoding a PEL gives the same result whatever was decoded before it."""
import importlib
import json
import os
import random
import struct
import re
import sys
import traceback

from vf import dirs, fxlog, gen, harness, mutate
from vf import pelmodel as pm

ID = "C19"
LEVEL = "exploration"
RULE = ("a pool of PELs per shard (well-formed of all kinds, damaged, with shipped plugins, with fixture plugins of every "
        "behaviour incl. parsers raising ImportError while parsing, failing callout-description and SRC parsers, creators "
        "without plugins) x {plugins enabled, disabled}.  The shard's parent process imports everything and decodes nothing "
        "(zygote); every reference result comes from a child forked from it that decodes exactly one PEL, every history "
        "(2..60 operations, repeats, poison-then-victim patterns) runs in its own forked child and after every operation the "
        "result is compared with the fresh reference, scanned for unique tokens of other PELs, and the four import caches are "
        "checked against per-module fresh-import verdicts.  Violating histories are shrunk by delta debugging (re-forking "
        "sub-histories).  Context families (drawer version, creator, SRC type, chip model, section placement) are dealt out by "
        "shard number.  CLI: -a and -a -r arrays equal the per-file fresh documents.  Non-trivial: history length >= 2; "
        "distinct = operation sequence.")
ASSUMPTIONS = ["stderr is not compared (one-time notices are legitimately first-decode only)",
               "fixture plugins are pure functions of their arguments, so any history dependence is the decoder's"]
WATCHDOG = {"quick": 900, "thorough": 5 * 3600}

TOKEN_RE = re.compile(r"Z[A-HJ-NP-Z]{6,}")


def plan(tier, seed):
    return [{"mode": "histories", "pool": 40 if tier == "quick" else 200, "nhist": 120 if tier == "quick" else 2500,
             "rseed": seed * 1000 + i, "registry": i % 3 != 2} for i in range(14)] + \
           [{"mode": "cli", "n": 20 if tier == "quick" else 500, "rseed": seed * 1000 + 100 + i} for i in range(2)]


def minimums(tier):
    return {"ops.compared": 20000, "histories.run": 1200, "cache.invariant_checks": 20000, "tokens.scanned_outputs": 10000,
            "cli.arrays_compared": 60, "cli.invocations_compared": 150, "poison.histories": 80, "histories.sharing_options_objects": 500}


# ---------------------------------------------------------------------------
class Item:
    __slots__ = ("data", "label", "tokens", "poison", "group")


def build_pool(rng, u, reg, n, fams):
    pool = []

    def add(pel_or_bytes, label, poison=False, group=None, toks=None):
        it = Item()
        it.data = pel_or_bytes.encode() if hasattr(pel_or_bytes, "encode") and not isinstance(pel_or_bytes, bytes) else pel_or_bytes
        it.label, it.poison, it.group = label, poison, group
        it.tokens = toks or set()
        pool.append(it)
        return it

    def mk(build):
        start = u.n
        issued = []
        orig = u.token

        def tok(width=8):
            t = orig(width)
            issued.append(t)
            return t
        u.token = tok
        try:
            pel = build()
        finally:
            u.token = orig
        return pel, {t for t in issued if len(t) >= 7}      # shorter tokens are not unique (truncated counter)
    while len(pool) < n:
        r = rng.random()
        if r < 0.3:
            pel, toks = mk(lambda: gen.gen_pel(rng, u, reg=reg))
            add(pel, "random", toks=toks)
        elif r < 0.5:
            # poison/victim families for the user-data cache: same fixture module, different behaviours
            c, comp = rng.choice([("O", 0xFA00), ("B", 0xFA00), ("M", 0xFA00), ("O", 0xFB00)])
            for fl in rng.sample(["fx_importerror", "fx_ok", "fx_raise", "fx_none", "fx_ok", "fx_list"], 3):
                pel, toks = mk(lambda: pm.Pel(c, pm.gen_ph(rng, u, c), pm.gen_uh(rng, c),
                                              [family_ud(rng, u, c, comp, fl), pm.gen_mt(rng, u, c)]))
                add(pel, "ud:" + fl, poison=fl == "fx_importerror", group="ud%s%04x" % (c, comp), toks=toks)
        elif r < 0.65:
            c = rng.choice("BM")
            for proc in rng.sample(["FXRAISE", "FXPROC1", "FXPROC2", "FXPROC1", "NOPE123"], 3):
                pel, toks = mk(lambda: pm.Pel(c, pm.gen_ph(rng, u, c), pm.gen_uh(rng, c), [proc_src(rng, u, c, proc), pm.gen_mt(rng, u, c)]))
                add(pel, "callout:" + proc, poison=proc == "FXRAISE", group="co" + c, toks=toks)
        elif r < 0.78:
            c = rng.choice("OBMX")
            for beh in rng.sample("0EF0DCAB0", 4):
                def b():
                    ref = ("BD8DFX0" + beh) if c == "O" else ("BD8D200" + beh)
                    return pm.Pel(c, pm.gen_ph(rng, u, c), pm.gen_uh(rng, c), [pm.gen_src(rng, u, True, c, srctype="BD", refcode=ref), pm.gen_mt(rng, u, c)])
                pel, toks = mk(b)
                add(pel, "src:" + beh, poison=beh in "EFAB", group="src" + c, toks=toks)
        elif r < 0.9:
            pel, toks = mk(lambda: gen.gen_pel(rng, u, reg=reg, nopt=3))
            data = pel.encode()
            k = rng.random()
            if k < 0.4:
                data = data[:rng.randrange(1, len(data))]
            elif k < 0.8:
                i = rng.randrange(len(data))
                data = data[:i] + bytes([data[i] ^ rng.choice([1, 0x80, 0xFF])]) + data[i + 1:]
            else:
                data = bytes(rng.randrange(256) for _ in range(rng.randrange(0, 100)))
            add(data, "damaged", toks=toks)
        else:
            c = rng.choice("HKLPST?")
            pel, toks = mk(lambda: gen.gen_pel(rng, u, reg=reg, creator=c, fixtures=False))
            add(pel, "noplugins-creator", toks=toks)
    # context families: the SAME payload / ids under different contexts (drawer type, creator, SRC type, chip model), so
    # that anything remembered from one context and replayed in another shows up as history dependence
    for fam in fams:
        if fam == 0:
            from vf import iogen, iomodels as im
            from io_drawer.drawer_type import MEX_DRAWER_TYPE, NIMITZ_DRAWER_TYPE
            mex = im.parse_shipped_string_file(MEX_DRAWER_TYPE.get_trace_string_file_path())
            nim = im.parse_shipped_string_file(NIMITZ_DRAWER_TYPE.get_trace_string_file_path())
            both = mex[:40] + nim[:40] + rng.sample(mex, 20) + rng.sample(nim, 20)
            tmex = im.parse_shipped_pte_table(MEX_DRAWER_TYPE.get_header_file_path())[0]
            tnim = im.parse_shipped_pte_table(NIMITZ_DRAWER_TYPE.get_header_file_path())[0]
            # PTEs drawn from the few entries that the two shipped tables do NOT share (a dozen patterns are described
            # differently or exist in one table only - the rest of the 600 are identical), then from the whole table
            dmex, dnim = {e[0]: e for e in reversed(tmex)}, {e[0]: e for e in reversed(tnim)}
            odd = [e for e in tmex if dnim.get(e[0]) != e] + [e for e in tnim if dmex.get(e[0]) != e]
            payloads = [(84, iogen.gen_trace(rng, both, name=b"FANS", nentries=6, hostile=False)),
                        (73, (lambda a: a[:len(a) // 8 * 8])(iogen.gen_ilog(rng, odd or tmex, 12)) + iogen.gen_ilog(rng, tnim, 12)),
                        (72, bytes(rng.randrange(256) for _ in range(48)))]
            for sub, payload in payloads:
                for ver in (1, 2, 1):
                    pel, toks = mk(lambda: pm.Pel("M", pm.gen_ph(rng, u, "M"), pm.gen_uh(rng, "M"),
                                                  [pm.sec_ud(rng, u, "M", 0x2C00, sub, ver, payload, expect_mode="plugin"), pm.gen_mt(rng, u, "M")]))
                    add(pel, "m2c00:%d/v%d" % (sub, ver), group="m2c00-%d" % sub, toks=toks)
            # shadowed table entries: a specific pattern listed BEFORE a wildcard pattern that also matches it and says
            # something else.  One log holds only PTEs that nothing but the wildcard matches, another only the specific
            # ones: a table that is kept between decodes and re-ordered by use (move-to-front, most-recent-match memo)
            # describes the second log differently after the first.  Both drawer types, each log twice.
            for ver, tab in ((1, tmex), (2, tnim)):
                pairs = shadow_pairs(tab)
                ctx_shadow.append(len(pairs))
                if not pairs:
                    continue
                chosen = rng.sample(pairs, min(len(pairs), 6))
                wild = b"".join(struct.pack(">HHI", rng.randrange(0x10000), k, w) for k, (sp, w) in enumerate(chosen))
                spec = b"".join(struct.pack(">HHI", rng.randrange(0x10000), k, sp) for k, (sp, w) in enumerate(chosen))
                for tag, payload in (("wild", wild), ("specific", spec), ("wild", wild), ("specific", spec)):
                    pel, toks = mk(lambda: pm.Pel("M", pm.gen_ph(rng, u, "M"), pm.gen_uh(rng, "M"),
                                                  [pm.sec_ud(rng, u, "M", 0x2C00, 73, ver, payload, expect_mode="plugin"), pm.gen_mt(rng, u, "M")]))
                    add(pel, "m2c00:73/v%d/shadow-%s" % (ver, tag), group="m2c00-shadow%d" % ver, toks=toks)
        elif fam == 1:
            comp = rng.choice([0xFA00, 0x2000, 0xE500, 0x1000, 0x0100, 0x4142])
            for c in rng.sample("OBHMX", 4):
                def b():
                    ph, uh = pm.gen_ph(rng, u, c), pm.gen_uh(rng, c)
                    ph["comp"] = uh["comp"] = comp
                    return pm.Pel(c, ph, uh, [pm.gen_mt(rng, u, c)])
                pel, toks = mk(b)
                add(pel, "compid:%s" % c, group="compid", toks=toks)
        elif fam == 2:
            reason = rng.choice(["2030", "2031", "2035", "2033"])
            for t, c in (("BD", "O"), ("11", "O"), ("BC", "B"), ("BD", "B"), ("B7", "O")):
                ref = ("1100" if t == "11" else t + "8D") + reason
                pel, toks = mk(lambda: pm.Pel(c, pm.gen_ph(rng, u, c), pm.gen_uh(rng, c),
                                              [pm.gen_src(rng, u, True, c, srctype=t, refcode=ref), pm.gen_mt(rng, u, c)]))
                add(pel, "registry:%s" % t, group="registry", toks=toks)
        elif fam == 4:
            # one (section creator, component) pair met in different PLACES: as user data of that creator's own PEL, and as
            # extended user data carried inside PELs of other creators (who may or may not have a parser for the component)
            from vf import iogen
            owners = {0x2C00: "M", 0xE500: "O", 0xFA00: "OBM", 0x3000: "O"}
            combos = rng.sample([(0x2C00, 72), (0x2C00, 73), (0xE500, 1), (0xFA00, 7), (0x3000, 1)], 2)
            for nth, (comp, sub) in enumerate(combos):
                payload = bytes(rng.randrange(256) for _ in range(48)) if comp != 0xFA00 else b"K" + bytes(rng.randrange(256) for _ in range(20))
                # once a section creator of any kind, once one that has NO parser of its own for the component (so that
                # whatever is shown can only come from the section's own creator and component, never from its surroundings)
                sec_creator = rng.choice("OBMX") if nth == 0 else rng.choice([c for c in "OBMX" if c not in owners[comp]])
                for pel_creator, ext in ((sec_creator, False), ("M", True), ("O", True), ("B", True), (sec_creator, False)):
                    pel, toks = mk(lambda: pm.Pel(pel_creator, pm.gen_ph(rng, u, pel_creator), pm.gen_uh(rng, pel_creator),
                                                  [pm.sec_ud(rng, u, pel_creator, comp, sub, 1, payload,
                                                             ext_creator=sec_creator if ext else None, expect_mode="none"),
                                                   pm.gen_mt(rng, u, pel_creator)]))
                    add(pel, "placement:%s%04x-in-%s-%s" % (sec_creator, comp, pel_creator, "ED" if ext else "UD"),
                        group="placement%d" % nth, toks=toks)
        else:
            from vf.props import c20
            b0 = bytes(rng.randrange(256) for _ in range(8))
            for model in ("20da0020", "60d20020", "%08x" % rng.randrange(1 << 32)):
                sigs = bytes.fromhex(model) + b0
                regs = c20.enc_regdump([(model, 1, 2, [("abcdef", 0, b"\x01\x02\x03"), ("123456", 2, b"\xaa")])])
                for sub, payload in ((1, (1).to_bytes(4, "big") + sigs), (2, regs)):
                    pel, toks = mk(lambda: pm.Pel("O", pm.gen_ph(rng, u, "O"), pm.gen_uh(rng, "O"),
                                                  [pm.sec_ud(rng, u, "O", 0xE500, sub, 1, payload, expect_mode="plugin"), pm.gen_mt(rng, u, "O")]))
                    add(pel, "oe500:%d/%s" % (sub, model[:4]), group="oe500", toks=toks)
    return pool


ctx_shadow = []


def shadow_pairs(table):
    """[(specific PTE, wildcard-only PTE)]: the specific PTE's first match is entry i, a LATER entry j with another message
    matches it too, and the second PTE is matched by j and by nothing listed before j."""
    from vf import iomodels as im
    out = []
    concrete = [(i, int(p, 16)) for i, (p, m, a) in enumerate(table) if len(p) == 8 and "*" not in p and all(c in "0123456789abcdefABCDEF" for c in p)]
    wild = [(j, p) for j, (p, m, a) in enumerate(table) if len(p) == 8 and "*" in p and p.count("*") <= 4]
    for i, v in concrete:
        if im.ilog_entry_message(v, table) != im.ilog_entry_message(v, table[i:]):
            continue                                   # something earlier already shadows the specific entry itself
        for j, p in wild:
            if j > i and im.pat_match(p, v) and table[j][1:] != table[i][1:]:
                # a PTE that only the wildcard describes: change the starred digits until no earlier entry matches
                for k in range(1, 256):
                    digits = "%0*X" % (p.count("*"), (k * 0x1111 + 0x2) % (16 ** p.count("*")))
                    it = iter(digits)
                    w = int("".join(c if c != "*" else next(it) for c in p), 16)
                    first = next((n for n, (q, _, _) in enumerate(table) if im.pat_match(q, w)), None)
                    if first == j and (w >> 28) != 0xE or first == j and not (w & 0x00040000):
                        out.append((v, w))
                        break
                break
    return out


def family_ud(rng, u, creator, comp, flavor):
    beh = gen.UD_FX_BEHAVIOURS[flavor]
    s = pm.sec_ud(rng, u, creator, comp, rng.randrange(256), rng.randrange(256), beh + pm.gen_payload(rng, u, 24), expect_mode="plugin")
    s.m["flavor"] = flavor
    return s


def proc_src(rng, u, creator, proc):
    s = pm.gen_src(rng, u, True, creator, srctype="BD", ncallouts=0)
    co = pm.gen_callout(rng, u)
    co.fru["flags"] = 0x40 | pm.FRU_PROC
    co.fru["pn"] = proc
    co.pce = co.mru = None
    cb = co.encode()
    sub = pm.u8(0xC0) + pm.u8(0) + pm.u16((4 + len(cb)) // 4) + cb
    body = bytearray(s.body[:72])
    body[1] |= 1
    s.body = bytes(body) + sub
    s.m["callouts"] = [co]
    return s


# ---------------------------------------------------------------------------
def do_op(pool, op, cfgs=None):
    """execute one operation in the current process; returns a comparable result.  cfgs: the options objects of the
    history (one per option set, reused by every operation that has these options - as a long-running caller does);
    None: a fresh options object (references)."""
    idx, plugins, mode = op
    it = pool[idx]
    if cfgs is None:
        cfg = harness.make_config(every_pel=True, allow_plugins=bool(plugins))
    else:
        if plugins not in cfgs:
            cfgs[plugins] = harness.make_config(every_pel=True, allow_plugins=bool(plugins))
        cfg = cfgs[plugins]
    if mode == "summary":
        r = harness.repo()
        import contextlib
        import io
        with contextlib.redirect_stdout(io.StringIO()), contextlib.redirect_stderr(io.StringIO()):
            try:
                stream = r["DataStream"](it.data, byte_order="big", is_signed=False)
                eid, summ = r["pt"].parsePELSummary(stream, cfg)
                return ["summary", eid, json.dumps(summ, default=str)]
            except Exception as e:
                return ["summary-error", type(e).__name__, str(e)]
    o = harness.decode(it.data, cfg, parse=False)
    if o.exc is not None:
        return ["error", type(o.exc).__name__, str(o.exc)]
    if o.exit is not None:
        return ["exit", repr(o.exit), ""]
    return ["doc" if o.text else "nothing", o.eid, o.text]


def forked(fn, outpath, timeout_s=120):
    """run fn() in a forked child of the (pristine) parent; result via a file"""
    pid = os.fork()
    if pid == 0:
        code = 0
        try:
            res = fn()
            with open(outpath, "w") as f:
                json.dump(res, f)
        except BaseException:          # noqa
            try:
                with open(outpath, "w") as f:
                    json.dump({"child_error": traceback.format_exc()[-2000:]}, f)
            except Exception:
                code = 3
        finally:
            os._exit(code)
    _, status = os.waitpid(pid, 0)
    try:
        with open(outpath) as f:
            res = json.load(f)
        os.unlink(outpath)
        return res
    except Exception:
        return {"child_error": "no result (status %r)" % status}


CACHE_NAMES = [("pel.peltool.parse_user_data", "userDataParsers"), ("pel.peltool.src", "srcParsers"),
               ("pel.peltool.src", "calloutParsers"), ("srcparsers.osrc.osrc", "osrcParsers")]


def cache_snapshot():
    out = []
    for modname, attr in CACHE_NAMES:
        mod = sys.modules.get(modname)
        d = getattr(mod, attr, None) if mod else None
        if isinstance(d, dict):
            for k, v in d.items():
                out.append([attr, k, v is None, (v is not None and sys.modules.get(k) is v)])
    return out


SHARED = {"on": False}      # does the current history reuse its options objects?  (fixed per history, also while shrinking)


class ImportFailpoint:
    """meta-path finder that fails the import of user-data parser packages with EMFILE while it is installed"""
    def __init__(self):
        self.fired = 0

    def find_spec(self, fullname, path=None, target=None):
        if fullname.startswith("udparsers."):
            self.fired += 1
            raise OSError(24, "Too many open files (injected at the import of %s)" % fullname)
        return None


def run_history(pool, ops, refs, alltokens, fresh_import):
    """executes in a forked child; returns dict with violations and stats"""
    viol, stats = [], {"ops": 0, "cache_checks": 0, "scanned": 0, "cache_states": [], "trans": []}
    prev = None
    cfgs = {} if SHARED["on"] else None      # every second history reuses its options objects across operations
    for k, op in enumerate(ops):
        if op[2] == "faulty":
            # a decode during which the FIRST import of a user-data parser module fails for a reason that has nothing to do
            # with the module (too many open files): a source-free failpoint on sys.meta_path, plug-in packages only.  What
            # this decode shows is not judged; that it leaves nothing behind is (the operations after it, the cache check).
            fp = ImportFailpoint()
            sys.meta_path.insert(0, fp)
            try:
                do_op(pool, (op[0], op[1], "decode"), cfgs)
            finally:
                sys.meta_path.remove(fp)
            stats["ops"] += 1
            stats["import_faults"] = stats.get("import_faults", 0) + fp.fired
            res, ref, it = None, None, pool[op[0]]
        else:
            res = do_op(pool, op, cfgs)
            stats["ops"] += 1
            key = "%d/%d/%s" % (op[0], op[1], op[2])
            ref = refs[key]
            it = pool[op[0]]
        stats["trans"].append("%s>%s" % (prev, it.label))
        prev = it.label
        if res != ref:
            what = "kind" if res[0] != ref[0] else "content"
            viol.append({"key": "C19/history-dependent-result/" + it.label.split(":")[0], "at": k,
                         "msg": "operation %d (%s of pool[%d] '%s', plugins=%d) gave %s, decoded first in a fresh process it gives %s: %s" %
                                (k, op[2], op[0], it.label, op[1], res[0], ref[0], diffline(ref[2], res[2]) if what == "content" else (res[1:], ref[1:]))})
        if res is not None and res[0] in ("doc", "summary") and isinstance(res[2], str):
            stats["scanned"] += 1
            for m in TOKEN_RE.finditer(res[2]):
                s = m.group(0)
                for w in (8, 7):            # longest first: the first known token decides
                    t = s[:w]
                    if len(t) == w and t in alltokens:
                        if t not in it.tokens and alltokens[t] != op[0]:
                            viol.append({"key": "C19/value-from-another-log", "at": k,
                                         "msg": "output of pool[%d] contains token %s which belongs to pool[%d]" % (op[0], t, alltokens[t])})
                        break
        snap = cache_snapshot()
        stats["cache_checks"] += 1
        state = sorted("%s:%s=%s" % (a, n.split(".")[-1], "None" if isnone else "mod") for a, n, isnone, same in snap)
        stats["cache_states"].append("|".join(state))
        for attr, name, isnone, same in snap:
            fi = fresh_import.get(name)
            if fi is None:
                continue
            if isnone and fi:
                viol.append({"key": "C19/cache-says-missing-but-module-imports/" + attr, "at": k,
                             "msg": "after operation %d the cache %s marks %s as not installed, but a fresh import of it succeeds" % (k, attr, name)})
            elif not isnone and not same:
                viol.append({"key": "C19/cache-holds-foreign-object/" + attr, "at": k,
                             "msg": "cache %s[%s] is not sys.modules[%s]" % (attr, name, name)})
        if len(viol) > 5:
            break
    stats["shared_options"] = cfgs is not None
    return {"viol": viol, "stats": stats}


def diffline(a, b):
    if not isinstance(a, str) or not isinstance(b, str):
        return "%r vs %r" % (a, b)
    al, bl = a.split("\n"), b.split("\n")
    for i, (x, y) in enumerate(zip(al, bl)):
        if x != y:
            return "line %d: fresh %r, in this history %r" % (i, x.strip()[:120], y.strip()[:120])
    return "fresh has %d lines, in this history %d" % (len(al), len(bl))


def gen_history(rng, pool):
    n = rng.choice([2, 3, 4, 6, 10, 20, 40, 60])
    ops = []
    poisons = [i for i, it in enumerate(pool) if it.poison]
    poisoned = False
    if poisons and rng.random() < 0.6:
        p = rng.choice(poisons)
        group = pool[p].group
        victims = [i for i, it in enumerate(pool) if it.group == group and i != p]
        pre = [rng.choice(victims)] if victims and rng.random() < 0.5 else []
        ops = [(i, 1, "decode") for i in pre] + [(p, 1, "decode")]
        for _ in range(rng.randrange(1, 4)):
            if victims:
                ops.append((rng.choice(victims), 1, rng.choice(["decode", "decode", "summary"])))
        poisoned = True
    okud = [i for i, it in enumerate(pool) if it.label in ("ud:fx_ok", "ud:fx_list")]
    if not poisoned and okud and rng.random() < 0.3:
        # a transient import fault while a working parser module is loaded for the first time, then the same log and its
        # neighbours again
        v = rng.choice(okud)
        mates = [i for i, it in enumerate(pool) if it.group == pool[v].group]
        ops = [(v, 1, "faulty"), (v, 1, "decode")] + [(rng.choice(mates), 1, "decode") for _ in range(2)]
        poisoned = True
    groups = sorted({it.group for it in pool if it.group})
    if groups and rng.random() < 0.5:
        g = rng.choice(groups)
        members = [i for i, it in enumerate(pool) if it.group == g]
        for i in rng.sample(members, min(len(members), rng.randrange(2, 6))):
            ops.append((i, 1, rng.choice(["decode", "decode", "summary"])))
    while len(ops) < n:
        i = rng.randrange(len(pool))
        if ops and rng.random() < 0.2:
            i = rng.choice(ops)[0]          # repeat
        ops.append((i, 1 if rng.random() < 0.8 else 0, "decode" if rng.random() < 0.85 else "summary"))
    if not poisoned:
        rng.shuffle(ops)
    return ops, poisoned


def shrink(pool, ops, refs, alltokens, fresh_import, key, tmp):
    """delta debugging on the operation list (each probe in a fresh fork)"""
    def fails(sub):
        r = forked(lambda: run_history(pool, sub, refs, alltokens, fresh_import), tmp)
        return any(v["key"] == key for v in r.get("viol", []))
    cur = list(ops)
    n = 2
    budget = 40
    while len(cur) >= 2 and budget > 0:
        chunk = max(1, len(cur) // n)
        reduced = False
        for i in range(0, len(cur), chunk):
            cand = cur[:i] + cur[i + chunk:]
            budget -= 1
            if cand and fails(cand):
                cur, n, reduced = cand, max(n - 1, 2), True
                break
            if budget <= 0:
                break
        if not reduced:
            if n >= len(cur):
                break
            n = min(len(cur), n * 2)
    return cur


def run(spec, ctx):
    harness.repo()
    harness.import_all_repo_modules()
    rng = random.Random(spec["rseed"])
    u = pm.Uniq((spec["shard"] + 1) * 10_000_000)      # counters >= 10^7: 7/8-char tokens are unique in the shard
    reg = harness.registry_model()
    root = harness.scratch_root()
    tmp = os.path.join(root, "child.json")
    if spec["mode"] == "cli":
        return run_cli(spec, ctx, rng, u, reg, root, tmp)
    if spec["shard"] % 2 == 0:
        from vf.props import c20
        c20.load_chipdata("full")          # before any fork: references and histories see the same chip data
        ctx.see("chipdata", "full")
    elif spec["shard"] % 4 == 1:
        from vf.props import c20
        c20.load_chipdata("damaged")       # a truncated chip data file: the failure must be the same on every decode
        ctx.see("chipdata", "damaged")
    # a shard with a damaged chip data file always has the hardware-diagnostics family in its pool (family 3), a shard with
    # the full chip data every second time: what the chip data does to a decode must be there to be seen
    # The context families are dealt out by shard number, not drawn: every family is in five or six of the fourteen pools
    # at every seed.
    i = spec["shard"]
    fams = [i % 5, (i + 1 + (i // 5) % 3) % 5]
    if i % 4 == 1 and 3 not in fams:      # a damaged chip data file must meet the hardware-diagnostics family
        fams.append(3)
    for f in fams:
        ctx.see("context_family", f)
    pool = build_pool(rng, u, reg, spec["pool"], fams)
    for n in ctx_shadow:
        ctx.see("shadowed_pte_pairs_in_shipped_table", n)
    ctx.counters["pool.shadow_pte_logs"] += sum(1 for it in pool if "shadow" in (it.label or ""))
    alltokens = {}
    for i, it in enumerate(pool):
        for t in it.tokens:
            alltokens.setdefault(t, i)
    # fresh references: one fork of the pristine parent per (PEL, options, mode)
    refs = {}
    for i in range(len(pool)):
        for plugins in (1, 0):
            for mode in ("decode", "summary"):
                r = forked(lambda: do_op(pool, (i, plugins, mode)), tmp)
                if isinstance(r, dict):
                    ctx.note("reference child failed: %s" % r.get("child_error", "")[-300:])
                    ctx.count("reference.failed")
                    r = ["child-error", "", ""]
                refs["%d/%d/%s" % (i, plugins, mode)] = r
    ctx.counters["references.computed"] += len(refs)
    for r in refs.values():
        ctx.see("reference.kind", r[0])
    # which parser modules import cleanly in a fresh process (module-only fact)
    names = set()
    for c, comp in gen.FX_UD + [("O", 0xFC00), ("O", 0xFD00), ("O", 0xE500), ("M", 0x2C00), ("O", 0x3000), ("B", 0x0100)]:
        n = (c.lower() + "%04x" % comp)
        names.add("udparsers.%s.%s" % (n, n))
    for c in "obmxhkz":
        names.add("srcparsers.%ssrc.%ssrc" % (c, c))
        names.add("calloutparsers.%scallouts.%scallouts" % (c, c))
    for comp in ("ofx00", "ofy00", "oe500", "o2000", "bsrc"):
        names.add("srcparsers.%s.%s" % (comp, comp))

    def can_import(name):
        try:
            importlib.import_module(name)
            return True
        except Exception:
            return False
    fresh_import = {}
    for nme in sorted(names):
        r = forked(lambda: can_import(nme), tmp)
        if isinstance(r, bool):
            fresh_import[nme] = r
    ctx.see("fresh_import.ok", sum(1 for v in fresh_import.values() if v))
    for h in range(spec["nhist"]):
        ops, poisoned = gen_history(rng, pool)
        SHARED["on"] = h % 2 == 1
        ctx.count("histories.sharing_options_objects" if SHARED["on"] else "histories.fresh_options_objects")
        ctx.current = {"history": [(i, pool[i].label, p, m) for i, p, m in ops][:70], "options_objects_reused": SHARED["on"]}
        ctx.case(repr(ops), len(ops) >= 2, sample={"history": [(pool[i].label, "plugins" if p else "no-plugins", m) for i, p, m in ops][:8]} if h < 2 else None)
        res = forked(lambda: run_history(pool, ops, refs, alltokens, fresh_import), tmp)
        ctx.count("histories.run")
        if poisoned:
            ctx.count("poison.histories")
        if "child_error" in res:
            ctx.note("history child failed: " + res["child_error"][-300:])
            ctx.count("history.child_failed")
            continue
        st = res["stats"]
        ctx.counters["ops.compared"] += st["ops"]
        ctx.counters["ops.import_failpoint_fired"] += st.get("import_faults", 0)
        ctx.counters["cache.invariant_checks"] += st["cache_checks"]
        ctx.counters["tokens.scanned_outputs"] += st["scanned"]
        for s in st["cache_states"]:
            ctx.see("cache.state", s[:300])
        for t in st["trans"]:
            ctx.see("transition", t)
        seen = set()
        for v in res["viol"]:
            if v["key"] in seen:
                continue
            seen.add(v["key"])
            small = shrink(pool, ops[:v["at"] + 1], refs, alltokens, fresh_import, v["key"], tmp) if ctx.n_violations < 6 else ops[:v["at"] + 1]
            ctx.violation(v["key"], v["msg"] + "  [shrunk history%s: %s]" % (" (options objects reused across operations)" if SHARED["on"] else "",
                                                                          [(pool[i].label, p, m) for i, p, m in small][:12]),
                          shrunk_history=[{"pool_index": i, "label": pool[i].label, "plugins": p, "mode": m, "pel": pool[i].data[:1500]}
                                          for i, p, m in small][:8])


def run_cli(spec, ctx, rng, u, reg, root, tmp):
    for i in range(spec["n"]):
        ents = dirs.gen_dir_model(rng, u, rng.randrange(2, 9), reg=reg, small=False)
        # add poison/victim pairs
        c = rng.choice("BM")
        for k, proc in enumerate(rng.sample(["FXRAISE", "FXPROC1", "FXPROC2"], 3)):
            pel = pm.Pel(c, pm.gen_ph(rng, u, c), pm.gen_uh(rng, c), [proc_src(rng, u, c, proc), pm.gen_mt(rng, u, c)])
            ents.append(dirs.Entry("%s_%d_%s" % (rng.choice("amz"), k, proc), pel, pel.encode()))
        for k, fl in enumerate(rng.sample(["fx_importerror", "fx_ok", "fx_raise"], 3)):
            pel = pm.Pel("O", pm.gen_ph(rng, u, "O"), pm.gen_uh(rng, "O"), [family_ud(rng, u, "O", 0xFA00, fl), pm.gen_mt(rng, u, "O")])
            ents.append(dirs.Entry("%s_%d_%s" % (rng.choice("bny"), k, fl), pel, pel.encode()))
        d = dirs.PelDir(os.path.join(root, "c%d" % i))
        d.extend(ents)
        pool = []
        for e in ents:
            it = Item()
            it.data, it.label, it.tokens, it.poison, it.group = e.data, e.name, set(), False, None
            pool.append(it)
        fresh, fresh_sum = {}, {}
        for k, e in enumerate(ents):
            r = forked(lambda: do_op(pool, (k, 1, "decode")), tmp)
            fresh[e.name] = json.loads(r[2]) if isinstance(r, list) and r[0] == "doc" else None
            r = forked(lambda: do_op(pool, (k, 1, "summary")), tmp)
            fresh_sum[e.name] = json.loads(r[2]) if isinstance(r, list) and r[0] == "summary" and r[1] else None
        # the list modes: every entry equals the summary the same file gives in a fresh process, in both orders
        for rev in (False, True):
            argv = ["-p", d.root, "-l", "-E"] + (["-r"] if rev else [])

            def job_l():
                rc, out, err, tb = harness.cli(argv)
                return {"rc": rc, "out": out, "tb": tb}
            res = forked(job_l, tmp)
            ctx.current = {"argv": argv, "files": [e.name for e in ents]}
            ctx.case(repr(argv) + repr([e.name for e in ents]) + str(spec["rseed"]), True)
            ctx.count("cli.lists_compared")
            if "child_error" in res or res.get("tb"):
                ctx.violation("C19/cli-failed", "peltool -l failed: %s" % (res.get("child_error") or res.get("tb"))[-300:])
                continue
            try:
                got = [dict(v) if isinstance(v, list) else v for _, v in json.loads(res["out"], object_pairs_hook=list)]
            except ValueError as e:
                ctx.violation("C19/cli-output", "-l output is not JSON: %s" % e)
                continue
            order = sorted(ents, key=lambda e: e.name, reverse=rev)
            want = [fresh_sum[e.name] for e in order if fresh_sum[e.name] is not None]
            if got != want:
                k = next((j for j in range(min(len(got), len(want))) if got[j] != want[j]), min(len(got), len(want)))
                nm = [e.name for e in order if fresh_sum[e.name] is not None][k] if k < len(want) else "?"
                ctx.violation("C19/directory-order-dependent-result", "-l%s: entry #%d (%s) differs from the summary the same file "
                              "gives when decoded alone (%d vs %d entries)" % (" -r" if rev else "", k, nm, len(got), len(want)))
        for rev in (False, True):
            argv = ["-p", d.root, "-a", "-E"] + (["-r"] if rev else [])

            def job():
                rc, out, err, tb = harness.cli(argv)
                return {"rc": rc, "out": out, "tb": tb}
            res = forked(job, tmp)
            ctx.current = {"argv": argv, "files": [e.name for e in ents]}
            ctx.case(repr(argv) + repr([e.name for e in ents]) + str(spec["rseed"]), True,
                     sample={"argv": argv[2:], "files": [e.name for e in ents][:6]} if i == 0 else None)
            ctx.count("cli.arrays_compared")
            if "child_error" in res or res.get("tb"):
                ctx.violation("C19/cli-failed", "peltool -a failed: %s" % (res.get("child_error") or res.get("tb"))[-300:])
                continue
            try:
                docs = json.loads(res["out"])
            except ValueError as e:
                ctx.violation("C19/cli-output", "-a output is not JSON: %s" % e)
                continue
            order = sorted(ents, key=lambda e: e.name, reverse=rev)
            want = [fresh[e.name] for e in order if fresh[e.name] is not None]
            if docs != want:
                k = next((j for j in range(min(len(docs), len(want))) if docs[j] != want[j]), min(len(docs), len(want)))
                nm = [e.name for e in order if fresh[e.name] is not None][k] if k < len(want) else "?"
                ctx.violation("C19/directory-order-dependent-result", "-a%s: document #%d (%s) differs from the document the same file gives "
                              "when decoded alone (%d vs %d documents)" % (" -r" if rev else "", k, nm, len(docs), len(want)))
        # several INVOCATIONS in one process (a wrapper that calls main() repeatedly): each prints what the same command line
        # prints in a process of its own - selection options of an earlier invocation do not stick
        invs = [["-l"], ["-l", "-S", "Informational"], ["-a", "-H"], ["-l", "-S", "Critical", "Predictive", "-O", "-s"], ["-n", "-E"],
                ["-l", "-N"], ["-l", "-t"], ["-n", "-S", "Recovered"], ["-a", "-P"], ["-n"], ["-l", "-E", "-r"]]
        seq = [["-p", d.root] + a for a in rng.sample(invs, 5) + [["-l"], ["-n"], ["-a"]]]

        def one(a):
            rc, out, err, tb = harness.cli(a)
            return [rc, out, tb]
        alone = [forked(lambda: one(a), tmp) for a in seq]
        together = forked(lambda: [one(a) for a in seq], tmp)
        ctx.current = {"invocations": [a[2:] for a in seq], "files": [e.name for e in ents]}
        ctx.case("invocations" + repr([a[2:] for a in seq]) + repr([e.name for e in ents]) + str(spec["rseed"]), True)
        if isinstance(together, dict) or any(isinstance(x, dict) for x in alone):
            ctx.count("cli.invocation_history_failed")
        else:
            for k, (a, x, y) in enumerate(zip(seq, alone, together)):
                ctx.count("cli.invocations_compared")
                if x != y:
                    ctx.violation("C19/invocation-history-dependent-result",
                                  "peltool %s as invocation #%d of one process (after %s) printed something else than in a process "
                                  "of its own: rc %s vs %s, %s" % (" ".join(a[2:]), k, [" ".join(b[2:]) for b in seq[:k]], y[0], x[0],
                                                                   diffline(x[1], y[1])))
                    break
        d.remove()
