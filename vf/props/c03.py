"""C03 - SRC sections: words, flags and every callout, registry message."""
import random

from vf import gen, harness, tables
from vf import pelmodel as pm
from vf.props import fidelity

ID = "C03"
LEVEL = "exploration"
RULE = ("well-formed PELs with primary/secondary SRC sections from the independent encoder: all word counts 1..9, "
        "boundary/random distinct hex words, all 256 header-flag bytes, SRC types BD/11/BC/other, 0..12 callouts with "
        "every legal FRU-identity flag combination, optional PCE and MRU (0..15 ids) substructures, location codes "
        "0..80, callouts after MRU/PCE/bare FRU, callout size/flags spelling 'ID' (0x49,0x44); each SRC is followed by a "
        "sentinel section; fixture message registry (in-order, reversed, repeated, brace-containing, per-type entries) "
        "on 3 of 4 shards.  Non-trivial: at least one SRC section; distinct = distinct encoded bytes.")
ASSUMPTIONS = ["a callout may lack the FRU identity (one in ten does; six in ten of those carry no substructure at all)",
               "a PCE identity carries at least the padded terminator of its name (28 bytes or more), as the phosphor-logging "
               "encoder writes it; one of exactly 24 bytes is not generated (the pinned tree rejects it through get_mem(0))",
               "part number xor procedure",
               "hex words beyond the valid count are unconstrained", "Error Details required only when the fixture "
               "registry defines the reason code for the SRC type; %N with N <= number of argument sources"]


def plan(tier, seed):
    per = 700 if tier == "quick" else 25000
    specs = [{"mode": "random", "n": per, "rseed": seed * 1000 + i, "registry": i % 4 != 3} for i in range(14)]
    # BMC file-system layout: no pel_registry distribution, the message registry under /usr/share/phosphor-logging/pels
    specs.append({"mode": "random", "n": per, "rseed": seed * 1000 + 700, "registry": False, "bmc": "ok"})
    specs.append({"mode": "cli", "n": 25 if tier == "quick" else 600, "rseed": seed * 1000 + 750})
    specs.append({"mode": "sweep", "rseed": seed * 1000 + 800, "reps": 1 if tier == "quick" else 25})
    specs.append({"mode": "sweep", "rseed": seed * 1000 + 801, "reps": 1 if tier == "quick" else 25, "registry": False})
    return specs


def minimums(tier):
    return {"SRC.entries": 10000, "src.callouts": 15000, "src.error_details": 1500, "src.procedure_descs_expected": 300,
            "field.SRC.Hex Word": 50000, "field.SRC.Callout Section": 8000, "bmc.error_details": 80, "bmc.path_accesses": 2,
            "cli.mode_runs": 200, "cli.mode_runs_with_dominated_options": 130, "embedded-in-larger-stream": 500,
            "src.callout_subsection_4096_words_or_more": 4}


KINDS = [("SS", 10), ("PS", 4), ("MT", 3), ("UNK", 3), ("UD", 1)]


def run(spec, ctx):
    spec["focus"] = "C03"
    fidelity.setup(spec)
    rng = random.Random(spec["rseed"])
    u = pm.Uniq(spec["shard"] * 10_000_000)
    reg = harness.registry_model()
    ctx.see("registry", harness.registry_active())
    ctx.see("layout", spec.get("bmc") or ("pel_registry" if harness.registry_active() else "none"))
    if spec.get("bmc"):
        before = ctx.counters.get("src.error_details", 0)

    def one(secs, creator, plugins=True):
        pel = pm.Pel(creator, pm.gen_ph(rng, u, creator), pm.gen_uh(rng, creator), secs)
        fidelity.run_case(pel, ctx, "C03", allow_plugins=plugins, reg=reg)
    if spec["mode"] == "cli":
        return fidelity.run_cli_modes(spec, ctx, "C03", rng, u, reg, KINDS)
    if spec["mode"] == "random":
        for _ in range(spec["n"]):
            plugins = rng.random() < 0.8
            c = rng.choice("OOOBMHX")
            pel = gen.gen_pel(rng, u, creator=c, reg=reg, kinds=KINDS, nopt=rng.choice([1, 2, 3, 4]), primary=True,
                              plugins_enabled=plugins)
            fidelity.run_case(pel, ctx, "C03", allow_plugins=plugins, reg=reg)
        if spec.get("bmc"):
            ctx.counters["bmc.error_details"] = ctx.counters.get("src.error_details", 0) - before
            ctx.counters["bmc.path_accesses"] = harness._bmc["opens"]
        return
    sentinel = lambda c: pm.sec_generic(rng, u, rng.choice([b"ID", b"PE", b"MR", b"XX", b"EI"]))
    for _ in range(spec["reps"]):
        for t in pm.SRC_TYPES:
            for wc in range(0, 10):
                c = rng.choice("OBM")
                one([pm.gen_src(rng, u, True, c, srctype=t, wordcount=wc, reg=reg), sentinel(c)], c)
        for fl in range(256):          # every header-flag byte
            c = rng.choice("OBM")
            s = pm.gen_src(rng, u, rng.random() < 0.5, c, reg=reg, ncallouts=rng.choice([0, 1, 2]))
            body = bytearray(s.body)
            body[1] = (fl & ~1) | (body[1] & 1)
            s.body = bytes(body)
            s.m["flags"] = body[1]
            tf = lambda b: "True" if b else "False"
            s.expect = [e for e in s.expect if e[0] not in ("Virtual Progress SRC", "I5/OS Service Event Bit", "Hypervisor Dump Initiated")]
            s.expect += [("Virtual Progress SRC", "eq", tf(body[1] & 0x80)), ("I5/OS Service Event Bit", "eq", tf(body[1] & 0x10)),
                         ("Hypervisor Dump Initiated", "eq", tf(body[1] & 0x04))]
            one([s, sentinel(c)], c)
        for nc in range(0, 13):
            for c in "OBM":
                one([pm.gen_src(rng, u, True, c, ncallouts=nc, reg=reg), sentinel(c)], c, plugins=rng.random() < 0.8)
        # registry entries: every fixture reason code x every type
        for r in reg:
            for t in ("BD", "11", "BC", "B7"):
                for c in "OB":
                    ref = ("1100" if t == "11" else t + "8D") + r["reason"][2:]
                    one([pm.gen_src(rng, u, True, c, srctype=t, refcode=ref, wordcount=rng.choice([9, 9, 5, 8])), sentinel(c)], c)
        # twins: the same type, reason code and reference code again, all words equal but ONE - what is shown for the second
        # SRC (message arguments, word descriptions, flags) follows its own words, whatever was decoded just before
        for r in reg:
            for t in ("BD", "11", "BC"):
                c = rng.choice("OB")
                ref = ("1100" if t == "11" else t + "8D") + r["reason"][2:]
                s1 = pm.gen_src(rng, u, True, c, srctype=t, refcode=ref, wordcount=9, ncallouts=0)
                one([s1, sentinel(c)], c)
                for k in range(8):          # every word once
                    w = list(s1.m["words"])
                    w[k] = (w[k] ^ (1 << rng.randrange(32))) if rng.random() < 0.5 else rng.randrange(1 << 32)
                    ctx.count("src.twins")
                    one([pm.gen_src(rng, u, True, c, srctype=t, refcode=ref, wordcount=9, ncallouts=0, words=w), sentinel(c)], c)
        # shaped callouts
        for _k in range(60):
            c = rng.choice("OBM")
            s = shaped_src(rng, u, c)
            one([s, sentinel(c)], c)
        # callout subsections near the top of what the 16-bit length-in-words field and the section size allow
        # (about 1000 .. 16000 words: hundreds of callouts)
        for n in (70, 150, 300, 300, 450, 700):
            c = rng.choice("OBM")
            while True:
                s = pm.gen_src(rng, u, rng.random() < 0.5, c, reg=reg, ncallouts=n)
                if 72 + 8 + sum(len(x.encode()) for x in s.m["callouts"]) <= 65000:
                    break
                n -= 20
            words = (4 + sum(len(x.encode()) for x in s.m["callouts"])) // 4
            ctx.see("big_callout_subsection.kwords", words // 1024)
            if words >= 4096:
                ctx.count("src.callout_subsection_4096_words_or_more")
            one([s, sentinel(c)], c)


def shaped_src(rng, u, creator):
    """SRC whose callouts exercise substructure combinations and the 'ID'-spelling size/flags."""
    cos = []
    for _ in range(rng.randrange(1, 6)):
        co = pm.gen_callout(rng, u)
        r = rng.random()
        if r < 0.3:
            co.flags = 0x44          # 'D'
            # pad the location code so that the callout size is 0x49-ish multiple of 4 is impossible (0x49 is odd):
            # sizes are multiples of 4 in well-formed callouts, so use 0x50 'P' with flags 0x45 'E' ("PE") instead
            co.flags = 0x45
            want = 0x50
            co.pce = None
            co.mru = None
            base = len(co.encode())
            if base <= want:
                pad = want - base
                co.loc = (co.loc + "X" * 80)[:max(1, min(80, len(co.loc) + pad))]
                # adjust precisely
                for n in range(1, 81):
                    co.loc = ("L" * n)
                    if len(co.encode()) == want:
                        break
        elif r < 0.5:
            co.flags = 0x52          # 'R': with size 0x4D ('M') impossible (odd); keep as hostile-looking flags only
        cos.append(co)
    s = pm.gen_src(rng, u, True, creator, ncallouts=0)
    # rebuild with our callouts
    m = s.m
    cb = b"".join(c.encode() for c in cos)
    sub = pm.u8(0xC0) + pm.u8(0) + pm.u16((4 + len(cb)) // 4) + cb
    body = bytearray(s.body[:72])
    body[1] |= 1
    body[6:8] = pm.u16(72 + len(sub))
    s.body = bytes(body) + sub
    m["callouts"], m["has_sub"], m["flags"] = cos, True, body[1]
    s.expect = [e for e in s.expect if e[0] != "Callout Section"] + [("Callout Section", "callouts", cos)]
    return s
