"""C04 - user data rendered from its content or preserved byte-for-byte as a hex dump."""
import random

from vf import gen, harness, tables
from vf import pelmodel as pm
from vf.props import fidelity

ID = "C04"
LEVEL = "exploration"
RULE = ("well-formed PELs with UD / ED / hexdump-only / unknown-id sections: BMC built-in JSON and text formats with "
        "hostile strings, every no-decoder branch (no module, module raising ImportError at import, module broken at "
        "import, plugins disabled, plugin raising / returning None / raising ImportError while parsing, BMC subtypes "
        "2/4/other), payload lengths 1..65527 over several byte classes.  Oracle: the built-in formats show the "
        "content; every other case carries a hex dump that an independent parser turns back into exactly the payload, "
        "plus an Error note when a parser failed.  Non-trivial: has such a section; distinct = distinct bytes.")
ASSUMPTIONS = ["invalid JSON / invalid UTF-8 in the built-in formats is outside the statement",
               "JSON user data keys never collide with the three section header keys",
               "fixture plugins (vf/fixtures/plugins) stand for 'another distribution installed more parser modules'"]
FLAVORS = ["bmc_json", "bmc_text", "bmc_other", "noparser", "fx_ok", "fx_raise", "fx_none", "fx_importerror", "fx_list",
           "fx_hostile", "fx_keyerror", "fx_badimport", "fx_brokenimport"]


def plan(tier, seed):
    per = 700 if tier == "quick" else 25000
    specs = [{"mode": "random", "n": per, "rseed": seed * 1000 + i, "registry": i % 4 != 3} for i in range(14)]
    specs.append({"mode": "sweep", "rseed": seed * 1000 + 800, "reps": 1 if tier == "quick" else 20})
    specs.append({"mode": "sweep", "rseed": seed * 1000 + 801, "reps": 1 if tier == "quick" else 20, "registry": False})
    return specs


def minimums(tier):
    m = {"UD.entries": 8000, "ED.entries": 4000, "GEN.entries": 4000}
    for fl in FLAVORS:
        m["ud.flavor.%s.plugins" % fl] = 100
    for fl in ("noparser", "fx_ok", "fx_raise", "bmc_json", "bmc_text"):
        m["ud.flavor.%s.noplugins" % fl] = 50
    m["ud.flavor.hexonly.plugins"] = 500
    m["ud.flavor.unknown-id.plugins"] = 500
    return m


KINDS = [("UD", 12), ("ED", 8), ("HEX", 4), ("UNK", 4), ("MT", 1)]


def run(spec, ctx):
    spec["focus"] = "C04"
    fidelity.setup(spec)
    rng = random.Random(spec["rseed"])
    u = pm.Uniq(spec["shard"] * 10_000_000)
    reg = harness.registry_model()
    if spec["mode"] == "random":
        for _ in range(spec["n"]):
            plugins = rng.random() < 0.7
            c = rng.choice("OOOOBMHX")
            pel = gen.gen_pel(rng, u, creator=c, reg=reg, kinds=KINDS, nopt=rng.choice([1, 2, 3, 5, 8]), primary=False,
                              plugins_enabled=plugins)
            fidelity.run_case(pel, ctx, "C04", allow_plugins=plugins, reg=reg)
        return

    def one(secs, creator, plugins=True):
        pel = pm.Pel(creator, pm.gen_ph(rng, u, creator), pm.gen_uh(rng, creator), secs + [pm.gen_mt(rng, u, creator)])
        fidelity.run_case(pel, ctx, "C04", allow_plugins=plugins, reg=reg)
    lens = [1, 2, 3, 15, 16, 17, 31, 32, 33, 255, 256, 257, 4095, 4096, 65527]
    for _ in range(spec["reps"]):
        for n in lens:
            for plugins in (True, False):
                one([pm.sec_ud(rng, u, "B", 0x0100, rng.randrange(256), rng.randrange(256), pm.gen_payload(rng, u, n))], "B", plugins)
                one([pm.sec_ud(rng, u, "O", 0x2000, 2, 1, pm.gen_payload(rng, u, n))], "O", plugins)
                one([pm.sec_generic(rng, u, rng.choice(pm.HEXDUMP_KINDS), pm.gen_payload(rng, u, n))], "O", plugins)
                one([pm.sec_generic(rng, u, b"ZZ", pm.gen_payload(rng, u, n))], "H", plugins)
                one([pm.sec_ud(rng, u, "O", 0x0100, 1, 1, pm.gen_payload(rng, u, min(n, 65523)), ext_creator="B")], "O", plugins)
        for fl in FLAVORS:
            for ext in (False, True):
                for plugins in (True, False):
                    for _k in range(6):
                        c = "O"
                        s = gen.gen_user_section(rng, u, c, ext, fl, True, plugins)
                        one([s, gen.gen_user_section(rng, u, c, False, "fx_ok", True, plugins)], c, plugins)
        # all byte values, one per section, at the printable boundaries of the dump's text column
        for b in range(256):
            one([pm.sec_ud(rng, u, "M", 0x0001, 0, 0, bytes([b]) * rng.choice([1, 16, 17]))], "M")
