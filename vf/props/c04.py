"""C04 - user data rendered from its content or preserved byte-for-byte as a hex dump."""
import random

from vf import gen, harness, tables
from vf import pelmodel as pm
from vf.props import fidelity

ID = "C04"
LEVEL = "exploration"
RULE = ("well-formed PELs with UD / ED / hexdump-only / unknown-id sections: BMC built-in JSON and text formats with "
        "hostile strings, every no-decoder branch (no module, module raising ImportError at import, module broken at "
        "import, plugins disabled, plugin raising / returning None / raising ImportError while parsing, BMC subtypes "
        "2/4/other), payload lengths 1..65527 over several byte classes.  Oracle: the built-in formats show the "
        "content; every other case carries a hex dump that an independent parser turns back into exactly the payload, "
        "plus an Error note when a parser failed.  Payloads marked JSON that are not (incl. a NUL in the middle: two terminated "
        "records back to back) are hex-dumped whole.  Non-trivial: has such a section; distinct = distinct bytes.")
ASSUMPTIONS = ["invalid JSON / invalid UTF-8 in the built-in formats is outside the statement",
               "JSON user data keys never collide with the three section header keys",
               "fixture plugins (vf/fixtures/plugins) stand for 'another distribution installed more parser modules'"]
FLAVORS = ["bmc_json", "bmc_text", "bmc_other", "bmc_badjson", "noparser", "fx_ok", "fx_raise", "fx_none", "fx_importerror", "fx_list",
           "fx_hostile", "fx_keyerror", "fx_badimport", "fx_brokenimport", "fx_release_raise", "fx_release_none",
           "fx_release_ok", "fx_raise_empty", "fx_raise_multiline"]


def plan(tier, seed):
    per = 700 if tier == "quick" else 25000
    specs = [{"mode": "random", "n": per, "rseed": seed * 1000 + i, "registry": i % 4 != 3} for i in range(13)]
    specs.append({"mode": "cli", "n": 30 if tier == "quick" else 600, "rseed": seed * 1000 + 700})
    specs.append({"mode": "climodes", "n": 25 if tier == "quick" else 600, "rseed": seed * 1000 + 750})
    specs.append({"mode": "sweep", "rseed": seed * 1000 + 800, "reps": 1 if tier == "quick" else 20})
    specs.append({"mode": "sweep", "rseed": seed * 1000 + 801, "reps": 1 if tier == "quick" else 20, "registry": False})
    return specs


def minimums(tier):
    m = {"UD.entries": 8000, "ED.entries": 4000, "GEN.entries": 4000}
    for fl in FLAVORS:
        m["ud.flavor.%s.plugins" % fl] = 100
    for fl in ("noparser", "fx_ok", "fx_raise", "bmc_json", "bmc_text"):
        m["ud.flavor.%s.noplugins" % fl] = 50
    m["ud.flavor.hexonly.plugins"] = 500
    m["ud.flavor.unknown-id.plugins"] = 500
    m["cli.runs"] = 50
    m["cli.mode_runs"] = 200
    m["pels.with_128_or_more_sections"] = 16
    m["cli.mode_runs_with_dominated_options"] = 130
    m["embedded-in-larger-stream"] = 500
    m["cli.nonascii_values_checked"] = 50
    return m


KINDS = [("UD", 12), ("ED", 8), ("HEX", 4), ("UNK", 4), ("MT", 1)]


def run(spec, ctx):
    spec["focus"] = "C04"
    fidelity.setup(spec)
    rng = random.Random(spec["rseed"])
    u = pm.Uniq(spec["shard"] * 10_000_000)
    reg = harness.registry_model()
    if spec["mode"] == "cli":
        return run_cli(spec, ctx, rng, u)
    if spec["mode"] == "climodes":
        return fidelity.run_cli_modes(spec, ctx, "C04", rng, u, reg, KINDS, creators="OOOOBMHX")
    if spec["mode"] == "random":
        for _ in range(spec["n"]):
            plugins = rng.random() < 0.7
            c = rng.choice("OOOOBMHX")
            pel = gen.gen_pel(rng, u, creator=c, reg=reg, kinds=KINDS, nopt=rng.choice([1, 2, 3, 5, 8]), primary=False,
                              plugins_enabled=plugins)
            fidelity.run_case(pel, ctx, "C04", allow_plugins=plugins, reg=reg)
        return

    def one(secs, creator, plugins=True):
        pel = pm.Pel(creator, pm.gen_ph(rng, u, creator), pm.gen_uh(rng, creator), secs + [pm.gen_mt(rng, u, creator)])
        fidelity.run_case(pel, ctx, "C04", allow_plugins=plugins, reg=reg)
    lens = [1, 2, 3, 15, 16, 17, 31, 32, 33, 255, 256, 257, 4095, 4096, 65527]
    for _ in range(spec["reps"]):
        for n in lens:
            for plugins in (True, False):
                one([pm.sec_ud(rng, u, "B", 0x0100, rng.randrange(256), rng.randrange(256), pm.gen_payload(rng, u, n))], "B", plugins)
                one([pm.sec_ud(rng, u, "O", 0x2000, 2, 1, pm.gen_payload(rng, u, n))], "O", plugins)
                one([pm.sec_generic(rng, u, rng.choice(pm.HEXDUMP_KINDS), pm.gen_payload(rng, u, n))], "O", plugins)
                one([pm.sec_generic(rng, u, b"ZZ", pm.gen_payload(rng, u, n))], "H", plugins)
                one([pm.sec_ud(rng, u, "O", 0x0100, 1, 1, pm.gen_payload(rng, u, min(n, 65523)), ext_creator="B")], "O", plugins)
        for fl in FLAVORS:
            for ext in (False, True):
                for plugins in (True, False):
                    for _k in range(6):
                        c = "O"
                        s = gen.gen_user_section(rng, u, c, ext, fl, True, plugins)
                        one([s, gen.gen_user_section(rng, u, c, False, "fx_ok", True, plugins)], c, plugins)
        # logs with very many sections (the count is one byte: up to 255 including the two headers)
        for total in (127, 128, 129, 200, 255):
            for plugins in (True, False):
                c = rng.choice("OBH")
                secs = []
                for k in range(total - 3):
                    r = k % 3
                    if r == 0:
                        secs.append(pm.sec_ud(rng, u, c, 0x3456, rng.randrange(256), rng.randrange(256), pm.gen_payload(rng, u, rng.choice([1, 5, 16]))))
                    elif r == 1:
                        secs.append(pm.sec_ud(rng, u, c, 0x0100, 7, 7, pm.gen_payload(rng, u, rng.choice([4, 12])), ext_creator="Q"))
                    else:
                        secs.append(pm.sec_generic(rng, u, rng.choice([b"ZZ", b"DH"]), pm.gen_payload(rng, u, 8)))
                ctx.count("pels.with_128_or_more_sections" if total >= 128 else "pels.with_127_sections")
                one(secs, c, plugins)
        # all byte values, one per section, at the printable boundaries of the dump's text column
        for b in range(256):
            one([pm.sec_ud(rng, u, "M", 0x0001, 0, 0, bytes([b]) * rng.choice([1, 16, 17]))], "M")


NONASCII = ["41 \u00b0C", "caf\u00e9", "\u20ac 5", "\u65e5\u672c", "\U0001f600", "\ud83d", "x\udc00y", "\u2028", "\u0085 nel", "\u00ff\u0100"]


def run_cli(spec, ctx, rng, u):
    """the same sections through `peltool.py -f` in a subprocess whose stdout is a pipe/file with different encodings:
    the section must still appear (JSON value equal, dump recoverable)"""
    import json
    import os
    import subprocess
    from vf import env
    root = harness.scratch_root()
    for i in range(spec["n"]):
        doc = {u.token(6): rng.choice(NONASCII) + rtext_ascii(rng), u.token(6) + rng.choice(["\u00e9", "\ud83d", ""]): [rng.choice(NONASCII), 5]}
        raw = json.dumps(doc, ensure_ascii=rng.random() < 0.5)
        try:
            payload = gen.nul_pad(raw.encode("utf-8"))
        except UnicodeEncodeError:
            payload = gen.nul_pad(json.dumps(doc).encode("ascii"))        # lone surrogates can only be written escaped
        dump_payload = pm.gen_payload(rng, u, rng.choice([5, 16, 260]))
        secs = [pm.sec_ud(rng, u, "O", 0x2000, 1, 1, payload, expect_mode="json"), pm.sec_ud(rng, u, "O", 0x1234, 7, 7, dump_payload)]
        pel = pm.Pel("O", pm.gen_ph(rng, u, "O"), pm.gen_uh(rng, "O"), secs)
        path = os.path.join(root, "nonascii_%d.pel" % i)
        with open(path, "wb") as f:
            f.write(pel.encode())
        for envx in ({}, {"PYTHONIOENCODING": "ascii"}, {"PYTHONIOENCODING": "latin-1"}, {"LC_ALL": "C", "PYTHONUTF8": "0", "PYTHONCOERCECLOCALE": "0"}):
            ctx.current = {"argv": ["-f", "<pel>", "-E"], "env": envx, "json_user_data": raw[:300]}
            ctx.case(raw + repr(sorted(envx.items())), True, sample={"env": envx, "json_user_data": raw[:120]} if i < 2 else None)
            p = harness.cli_sub(["-f", path, "-E"], extra_env=envx)
            ctx.count("cli.runs")
            if p is None:
                continue
            try:
                out = json.loads(p.stdout.decode(envx.get("PYTHONIOENCODING", "utf-8"), "surrogateescape"))
            except Exception:
                out = None
            if not isinstance(out, dict):
                ctx.violation("C04/cli-section-lost", "peltool -f printed no document for a PEL whose JSON user data holds non-ASCII "
                              "text (env %s): rc=%d stderr=%r" % (envx, p.returncode, p.stderr.decode("utf-8", "replace")[-300:]))
                continue
            ud0, ud1 = out.get("User Data 0", {}), out.get("User Data 1", {})
            ctx.count("cli.nonascii_values_checked")
            bad = [k for k, v in doc.items() if ud0.get(k) != v]
            if bad:
                ctx.violation("C04/cli-json-value", "JSON user data key %r shown as %r, the section holds %r (env %s)" %
                              (bad[0], ud0.get(bad[0]), doc[bad[0]], envx))
            try:
                ok = pm.parse_dump(ud1.get("Data")) == dump_payload
            except ValueError:
                ok = False
            if not ok:
                ctx.violation("C04/cli-dump", "hex dump of the following section cannot be recovered (env %s)" % (envx,))
        os.unlink(path)


def rtext_ascii(rng):
    return "".join(rng.choice("abc XYZ09") for _ in range(rng.randrange(0, 6)))
