"""C15 - trace buffers decode entry by entry, stopping at the first malformed entry."""
import os
import random

from vf import harness, iogen
from vf import iomodels as im

ID = "C15"
LEVEL = "exploration"
RULE = ("harness-written trace string files (0..30 strings, duplicate and partially colliding hashes, formats of arity 0..6, "
        "%s %c %% and invalid specifiers, '||' inside messages) and both shipped files (hashes drawn from them, +-k*100000); "
        "buffers with 0..9 entries of data length 0..1025 in every alignment, trace/binary/other tags, then a fault: oversized "
        "entry, trailer off by +-1/+-4, truncation, garbage; declared size exact / larger / 0 / 31..33 / inside the buffer; "
        "every buffer is additionally truncated at every offset (thorough) or every 5th (quick).  Wrappers over every alias of "
        "parse_trace_data and over TraceStringFile.get_trace_string compare each call with trace_ref / find_string.  "
        "String files carry near-miss lines (hash of a real string in digits of another script, signed, underscored, hex, "
        "float) before the real line and at the end.  Non-trivial: input >= 32 bytes; distinct = (string file, data).")
ASSUMPTIONS = ["an entry belongs to the buffer when it starts below the declared size (it may extend beyond it)",
               "Python's % operator is the formatting semantics", "dumps use the documented default hex-dump layout"]
FILES = {}


def install(ctx):
    harness.import_all_repo_modules()
    import io_drawer.trace as trace
    orig = trace.parse_trace_data

    def parse_trace_data(data, string_file_path):
        res = orig(data, string_file_path)
        strings = FILES.get(iogen.pkey(string_file_path))
        if strings is None:
            ctx.counters["trace.unknown_string_file"] += 1
            return res
        ctx.counters["trace.calls_checked"] += 1
        want, alt = im.trace_ref(bytes(data), strings)
        # an entry that STARTS below the declared size is shown even when it extends beyond it (the reading the statement's
        # "every entry up to the declared buffer size" has in this code base); `alt` is only counted, not accepted
        if list(res) != want:
            k = 0
            while k < min(len(res), len(want)) and res[k] == want[k]:
                k += 1
            if len(bytes(data)) < 32:
                kind = "no-header-dump"
            elif k < 7:
                kind = "header"
            else:
                kind = "entries"
                a, b = (res[k] if k < len(res) else ""), (want[k] if k < len(want) else "")
                if k >= len(res) or k >= len(want):
                    kind = "entry-count"
                elif a.startswith(im.INDENT) or b.startswith(im.INDENT):
                    kind = "entry-dump-or-warning"
                elif a[:19] != b[:19]:
                    kind = "entry-fixed-fields"
                else:
                    kind = "entry-message"
            ctx.violation("C15/" + kind, "parse_trace_data line %d: shown %r, the model says %r (%d vs %d lines)" %
                          (k, res[k] if k < len(res) else None, want[k] if k < len(want) else None, len(res), len(want)),
                          data=bytes(data)[:600], strings=[list(s) for s in strings][:40])
        if alt is not None:
            ctx.counters["trace.ambiguous_size_inside_entry"] += 1
        ctx.counters["trace.lines_checked"] += len(want)
        return res
    n = harness.rebind_everywhere(orig, parse_trace_data)
    ctx.counters["trace.rebound_sites"] = n
    orig_get = trace.TraceStringFile.get_trace_string

    def get_trace_string(self, hash_value):
        r = orig_get(self, hash_value)
        strings = FILES.get(iogen.pkey(self.string_file_path))
        if strings is not None:
            ctx.counters["get_trace_string.checked"] += 1
            s, partial = im.find_string(strings, hash_value)
            got = None if r is None else (r.hash_value, r.message_format, r.location)
            if got != s:
                ctx.violation("C15/string-lookup", "hash %d: string %r returned, the model selects %r (%s)" %
                              (hash_value, got, s, "partial" if partial else "exact"))
            ctx.see("lookup", "none" if s is None else ("partial" if partial else "exact"))
        return r
    trace.TraceStringFile.get_trace_string = get_trace_string


def plan(tier, seed):
    n = 60 if tier == "quick" else 700
    specs = [{"mode": "synthetic", "n": n, "rseed": seed * 1000 + i, "optimize": i % 4 == 3, "step": 5 if tier == "quick" else 2} for i in range(14)]
    specs += [{"mode": "shipped", "which": w, "n": 120 if tier == "quick" else 5000, "rseed": seed * 1000 + 100 + k}
              for k, w in enumerate(["mex", "nimitz"])]
    specs[-1]["optimize"] = True          # python -O: assert statements are compiled away
    specs.append({"mode": "peltool", "n": 14 if tier == "quick" else 250, "rseed": seed * 1000 + 400})
    specs.append({"mode": "layout", "n": 30 if tier == "quick" else 300, "rseed": seed * 1000 + 200})
    return specs


def minimums(tier):
    return {"trace.calls_checked": 8000, "trace.lines_checked": 80000, "get_trace_string.checked": 8000,
            "workload.truncations": 4000, "workload.short_inputs": 300, "peltool.io_section_runs": 30, "peltool.io_sections_compared": 30, "layout.compared": 50,
            "layout.decoded_in_plain_tree": 50}


def drive(ctx, trace, rng, path, strings, tag, step):
    buf = iogen.gen_trace(rng, strings)
    inputs = [buf]
    off = rng.randrange(step)
    for n in range(len(buf)):
        if n % step == off or n in (0, 1, 31, 32, 33, 47, 48):
            inputs.append(buf[:n])
            ctx.counters["workload.truncations"] += 1
    inputs.append(buf + bytes(rng.randrange(256) for _ in range(rng.randrange(1, 30))))
    for d in inputs:
        if len(d) < 32:
            ctx.counters["workload.short_inputs"] += 1
        ctx.current = {"strings": [list(s) for s in strings][:30] if len(strings) < 100 else tag, "data": d[:600]}
        ctx.case(tag + d.hex(), len(d) >= 32, sample={"data_hex": d[:48].hex(), "len": len(d)} if len(d) == 48 else None)
        try:
            trace.parse_trace_data(iogen.view_of(rng, d), iogen.path_of(rng, path))
        except Exception as e:
            ctx.violation("C15/decoder-raised/" + type(e).__name__, "parse_trace_data raised %r (every input must be decoded or dumped)" % (e,),
                          data=d[:600], strings=[list(s) for s in strings][:40] if len(strings) < 100 else tag)


def run(spec, ctx):
    harness.repo()
    install(ctx)
    import io_drawer.trace as trace
    rng = random.Random(spec["rseed"])
    root = harness.scratch_root()
    if spec["mode"] == "peltool":
        # the section inside a PEL, decoded by peltool in a process of its own (see vf/iocli.py)
        from vf import iocli
        from vf import pelmodel as pm
        iocli.run(ctx, ID, rng, pm.Uniq(spec["shard"] * 10_000_000), 84, spec["n"])
        return
    if spec["mode"] == "layout":
        # the shipped string files are found next to the modules: same result however the package is laid out on disk
        from vf import layout
        from io_drawer.drawer_type import DRAWER_TYPES
        cases = []
        for dt in DRAWER_TYPES:
            strings = im.parse_shipped_string_file(dt.get_trace_string_file_path())
            for _ in range(spec["n"]):
                cases.append((84, dt.user_data_version, iogen.gen_trace(rng, strings, hostile=rng.random() < 0.3)))
        layout.compare(ctx, "C15", cases, "trace data")
        return
    if spec["mode"] == "synthetic":
        for i in range(spec["n"]):
            strings = iogen.gen_strings(rng)
            path = os.path.join(root, "str_%d" % (i % 3))      # paths are reused: the file is rewritten with other strings
            im.write_string_file(path, strings, rng)
            FILES[os.path.abspath(path)] = iogen.model_strings(strings)
            for _ in range(3):
                drive(ctx, trace, rng, path, iogen.model_strings(strings), "syn%d-%d" % (spec["rseed"], i), spec["step"])
            if strings and i % 3 == 0:
                # same path, same size, same time stamps, other messages (first letter of one message changed)
                k = rng.randrange(len(strings))
                h, msg, loc = strings[k]
                if msg.strip() and msg.strip()[0].isalpha():
                    m2 = msg.replace(msg.strip()[0], "Q" if msg.strip()[0] != "Q" else "Z", 1)
                    s2 = list(strings)
                    s2[k] = (h, m2, loc)
                    old_line, new_line = "%d||%s||%s" % (h, msg, loc), "%d||%s||%s" % (h, m2, loc)
                    if iogen.rewrite_same_stat(path, lambda t: t.replace(old_line, new_line, 1) if t.count(old_line) == 1 else None):
                        FILES[os.path.abspath(path)] = iogen.model_strings(s2)
                        ctx.count("workload.same_stat_rewrites")
                        drive(ctx, trace, rng, path, iogen.model_strings(s2), "syn%d-%d-rw" % (spec["rseed"], i), spec["step"])
        return
    from io_drawer.drawer_type import MEX_DRAWER_TYPE, NIMITZ_DRAWER_TYPE
    dt = MEX_DRAWER_TYPE if spec["which"] == "mex" else NIMITZ_DRAWER_TYPE
    path = dt.get_trace_string_file_path()
    strings = im.parse_shipped_string_file(path)
    ctx.see("shipped.strings", "%s:%d" % (spec["which"], len(strings)))
    FILES[os.path.abspath(path)] = strings
    for i in range(spec["n"]):
        drive(ctx, trace, rng, path, strings, spec["which"], 16)
