"""C02 - header-type sections display exactly the encoded values."""
import random

from vf import gen, harness, tables
from vf import pelmodel as pm
from vf.props import fidelity

ID = "C02"
LEVEL = "exploration"
RULE = ("well-formed PELs whose PH/UH/EH/MT/LP fields are drawn from boundary + random values with all-distinct "
        "neighbouring fields; sweeps: every byte value of each coded byte, all single/pair action-flag bits (+ all 65536 "
        "words on thorough), every creator id incl. PHYP ASCII component ids and fixture component-name files, 0..255 "
        "target partitions; every displayed field is compared with the encoded value (ids numerically, names through "
        "the frozen tables).  Non-trivial: at least one optional header-type section or a swept PH/UH value.")
ASSUMPTIONS = ["frozen name tables = published tables of the pinned commit; entries added later are accepted",
               "number formatting (case, zero padding, 0x) is not constrained",
               "text fields are printable ASCII with trailing NUL padding only"]


def plan(tier, seed):
    per = 900 if tier == "quick" else 30000
    specs = [{"mode": "random", "n": per, "rseed": seed * 1000 + i, "registry": i % 4 != 3} for i in range(13)]
    # BMC file-system layout (no pel_registry distribution; files under /usr/share/phosphor-logging/pels), once with
    # all name files intact and once each with one creator's file damaged
    for j, kind in enumerate(("ok", "damaged-O", "damaged-B")):
        specs.append({"mode": "random", "n": per, "rseed": seed * 1000 + 700 + j, "registry": False, "bmc": kind})
    specs.append({"mode": "climodes", "n": 25 if tier == "quick" else 600, "rseed": seed * 1000 + 750})
    specs.append({"mode": "sweep_uh", "rseed": seed * 1000 + 800, "all_flags": tier != "quick"})
    specs.append({"mode": "sweep_ph", "rseed": seed * 1000 + 801, "reps": 1 if tier == "quick" else 20})
    specs.append({"mode": "sweep_lp", "rseed": seed * 1000 + 802, "reps": 1 if tier == "quick" else 10})
    return specs


def minimums(tier):
    return {"PH.entries": 10000, "UH.entries": 10000, "EH.entries": 1500, "MT.entries": 1500, "LP.entries": 1500,
            "field.LP.Target LP*": 1500, "field.UH.Action Flags": 10000, "bmc.names_displayed": 40, "bmc.path_accesses": 6,
            "cli.mode_runs": 200, "cli.mode_runs_with_dominated_options": 130, "embedded-in-larger-stream": 500}


KINDS = [("EH", 10), ("MT", 10), ("LP", 10), ("SS", 2), ("UD", 2), ("HEX", 2)]


def run(spec, ctx):
    spec["focus"] = "C02"
    fidelity.setup(spec)
    rng = random.Random(spec["rseed"])
    u = pm.Uniq(spec["shard"] * 10_000_000)
    reg = harness.registry_model()
    ctx.see("registry", harness.registry_active())
    ctx.see("layout", spec.get("bmc") or ("pel_registry" if harness.registry_active() else "none"))

    def one(pel):
        o = fidelity.run_case(pel, ctx, "C02", reg=reg)
        if spec.get("bmc") and o is not None and o.doc:
            shown = o.doc.get("Private Header", {}).get("Created by")
            if pm.as_hex_or_none(shown) is None:
                ctx.count("bmc.names_displayed")
            ctx.counters["bmc.path_accesses"] = harness._bmc["opens"]
    if spec["mode"] == "climodes":
        return fidelity.run_cli_modes(spec, ctx, "C02", rng, u, reg, KINDS, creators=pm.KNOWN_CREATORS)
    if spec["mode"] == "random":
        for _ in range(spec["n"]):
            one(gen.gen_pel(rng, u, reg=reg, kinds=KINDS, nopt=rng.choice([1, 2, 3, 4, 6])))
    elif spec["mode"] == "sweep_uh":
        def uhpel(**kw):
            c = rng.choice(pm.KNOWN_CREATORS)
            uh = pm.gen_uh(rng, c)
            uh.update(kw)
            return pm.Pel(c, pm.gen_ph(rng, u, c), uh, [pm.gen_mt(rng, u, c)])
        for v in range(256):
            for f in ("subsystem", "scope", "sev", "etype"):
                one(uhpel(**{f: v}))
            one(uhpel(states=v))
            one(uhpel(states=v << 8))
            one(uhpel(states=(v << 8) | (255 - v) | 0xABCD0000))
        bits = [1 << i for i in range(16)]
        words = set(bits) | {a | b for a in bits for b in bits} | {0, 0xFFFF} | {rng.randrange(0x10000) for _ in range(2000)}
        if spec.get("all_flags"):
            words = range(0x10000)
        for w in words:
            one(uhpel(flags=w))
        ctx.see("flags.words", len(words))
    elif spec["mode"] == "sweep_ph":
        for _ in range(spec["reps"]):
            for c in [chr(x) for x in range(0x20, 0x7F)]:
                for comp in (0x4142, 0x4100, 0x0042, 0x0000, 0x2000, 0xABCD, 0x00AB, 0xFA00, 0x0100, 0xFFFF, 0x7E21):
                    ph = pm.gen_ph(rng, u, c)
                    ph["comp"] = comp
                    uh = pm.gen_uh(rng, c)
                    uh["comp"] = comp ^ rng.choice([0, 0x0101])
                    one(pm.Pel(c, ph, uh, [pm.gen_eh(rng, u, c)]))
            for width, key in ((32, "plid"), (32, "eid"), (32, "bmcid"), (64, "cssver")):
                for v in [0, 1, 0xF, 0x10, 0xFF, 0x100, 0xFFFF, 0x10000, 0x0FFFFFFF, 0x10000000, 0x7FFFFFFF, 0x80000000,
                          (1 << width) - 1, (1 << width) - 2] + [rng.randrange(1 << width) for _ in range(20)]:
                    c = rng.choice(pm.KNOWN_CREATORS)
                    ph = pm.gen_ph(rng, u, c)
                    ph[key] = v
                    one(pm.Pel(c, ph, pm.gen_uh(rng, c), [pm.gen_mt(rng, u, c)]))
            for v in range(256):
                c = rng.choice(pm.KNOWN_CREATORS)
                ph = pm.gen_ph(rng, u, c)
                ph["ver"], ph["sub"] = v, 255 - v
                one(pm.Pel(c, ph, pm.gen_uh(rng, c), [pm.gen_mt(rng, u, c)]))
    else:
        for _ in range(spec["reps"]):
            for nt in range(256):
                c = rng.choice(pm.KNOWN_CREATORS)
                one(pm.Pel(c, pm.gen_ph(rng, u, c), pm.gen_uh(rng, c),
                           [pm.gen_lp(rng, u, c, ntargets=nt, namelen=rng.choice([0, 4, 8, 64, 252])), pm.gen_mt(rng, u, c)]))
            for nl in range(0, 256, 4):
                c = rng.choice(pm.KNOWN_CREATORS)
                one(pm.Pel(c, pm.gen_ph(rng, u, c), pm.gen_uh(rng, c),
                           [pm.gen_lp(rng, u, c, ntargets=rng.choice([0, 1, 2, 7]), namelen=nl), pm.gen_eh(rng, u, c, symlen=nl)]))
