"""C18 - parser modules are chosen by creator/component, fed the right data, contained."""
import json
import os
import random
import struct
import subprocess
import sys

from vf import env, fxlog, gen, harness, iogen
from vf import iomodels as im
from vf import pelmodel as pm

ID = "C18"
LEVEL = "exploration"
RULE = ("PELs whose user-data / SRC sections are routed to parser modules: fixture modules of every behaviour (OK, raising, "
        "returning None, raising ImportError while parsing, ImportError / RuntimeError at import, JSON list / hostile output) "
        "for creators O B M X H, components with no module, the shipped oe500 and m2c00 parsers; SRC reference codes over "
        "creators, BMC components (FX, FY, E5, none) and BC codes; m2c00 subtypes 0..255 x versions 0..3; plugins on/off.  "
        "Monitors: a sys.meta_path recorder logs every import request for udparsers./srcparsers./calloutparsers. names; the "
        "fixture modules log every call with its arguments; wrappers over m2c00's decoder names log routing; a differential "
        "decode (same PEL with the failing section's behaviour byte set to OK) shows that a failing parser changes only its "
        "own section; with plugins disabled any request/call/sys.modules entry of a parser package is a violation (also in "
        "fresh subprocesses).  Non-trivial: PEL has a section that consults a parser module; distinct = bytes + options.")
ASSUMPTIONS = ["words beyond the valid count and the blank padding of the reference code passed to SRC parsers are unconstrained",
               "plugins returning invalid JSON or non-strings are outside the statement",
               "fixture modules under vf/fixtures/plugins stand for arbitrary third-party parser modules"]

REQUESTS = []


class Recorder:
    """sys.meta_path finder that only records"""
    def find_spec(self, fullname, path=None, target=None):
        if fullname.split(".")[0] in ("udparsers", "srcparsers", "calloutparsers"):
            REQUESTS.append(fullname)
        return None


def plan(tier, seed):
    n = 800 if tier == "quick" else 15000
    specs = [{"mode": "pels", "n": n, "rseed": seed * 1000 + i, "registry": i % 3 != 2} for i in range(11)]
    specs += [{"mode": "m2c00", "rseed": seed * 1000 + 100 + i, "reps": 1 if tier == "quick" else 20} for i in range(2)]
    specs += [{"mode": "noplugins", "n": 6 if tier == "quick" else 150, "rseed": seed * 1000 + 200 + i} for i in range(3)]
    specs += [{"mode": "cli", "n": 400 if tier == "quick" else 8000, "rseed": seed * 1000 + 300 + i} for i in range(2)]
    return specs


def minimums(tier):
    return {"ud.calls_checked": 1500, "src.calls_checked": 800, "imports.pels_checked": 2000, "containment.pairs": 500,
            "noplugins.decodes": 500, "noplugins.subprocess_runs": 100, "m2c00.routing_checked": 900,
            "osrc.component_routing": 200, "osrc.bc_routing": 40, "callout.calls_checked": 100,
            "src.parser_module_fails_at_import": 150, "cli.mode_runs": 500, "cli.mode_runs_with_dominated_options": 300}


def ud_module(creator, comp):
    name = (creator.lower() + "%04X" % comp).lower()
    return "udparsers.%s.%s" % (name, name)


def parents(mod):
    p = mod.split(".")
    return {".".join(p[:i]) for i in range(1, len(p) + 1)}


def expected_requests(pel, allow_plugins):
    """names the decoder may request through the import system for this PEL"""
    ok = set()
    if not allow_plugins:
        return ok
    for s in pel.sections:
        if s.kind in ("UD", "ED"):
            c, comp = s.m["creator"], s.m["comp"]
            if c == "O" and comp == 0x2000:
                continue
            ok |= parents(ud_module(c, comp))
        elif s.kind == "SRC":
            c = s.m["creator"].lower()
            ok |= parents("srcparsers.%ssrc.%ssrc" % (c, c))
            ok |= parents("calloutparsers.%scallouts.%scallouts" % (c, c))
            if c == "o":
                ref = s.m["ascii"]
                comp = "o" + ref[4:6].lower() + "00"
                ok |= parents("srcparsers.%s.%s" % (comp, comp))
                if ref[:2] == "BC":
                    ok |= parents("srcparsers.bsrc.bsrc")
    return ok


def src_expected_call(sec):
    """(module or None, refcode, words) for the fixture SRC parsers"""
    c = sec.m["creator"].lower()
    ref = sec.m["ascii"]
    words = [("%08X" % sec.m["words"][i]) if (i + 2) <= sec.m["wc"] else None for i in range(8)]
    if c in ("b", "m", "x"):
        return "srcparsers.%ssrc.%ssrc" % (c, c), ref, words
    if c == "o":
        if ref[:2] == "BC":
            return "srcparsers.bsrc.bsrc", ref, words
        comp = ref[4:6].lower()
        if comp in ("fx", "fy"):
            return "srcparsers.o%s00.o%s00" % (comp, comp), ref, words
    return None, ref, words


def build_pel(rng, u, reg, plugins):
    creator = rng.choice("OOOOBBMXHYZ")      # Y, Z: SRC parser modules that fail while being imported
    secs = []
    if rng.random() < 0.75:
        t = rng.choice(["BD", "BD", "BD", "BC", "11", "B7"])
        secs.append(pm.gen_src(rng, u, True, creator, srctype=t, reg=reg))
    for _ in range(rng.randrange(1, 6)):
        r = rng.random()
        if r < 0.6:
            secs.append(gen.gen_user_section(rng, u, creator, ext=rng.random() < 0.35, fixtures=True, plugins_enabled=plugins))
            s0 = secs[-1]
            if s0.m.get("flavor") in ("fx_ok", "fx_list", "fx_hostile") and rng.random() < 0.4:
                # the byte-identical payload for the same parser module, under another section version / sub-type:
                # the parser is consulted again with THIS section's version and sub-type
                ver2 = (s0.m["ver"] + rng.randrange(1, 255)) & 0xFF
                sub2 = s0.m["sub"] if rng.random() < 0.5 else (s0.m["sub"] + 1) & 0xFF
                ext = s0.kind == "ED"
                t = pm.sec_ud(rng, u, creator, s0.m["comp"], sub2, ver2, s0.payload,
                              ext_creator=s0.m["creator"] if ext else None, expect_mode="plugin")
                t.m["flavor"] = s0.m["flavor"]
                t.note = s0.m["flavor"]
                if s0.m["flavor"] == "fx_ok" and plugins:
                    name = (s0.m["creator"].lower() + "%04X" % s0.m["comp"]).lower()
                    t.expect.append(("*", "contains", fxlog.ud_result("udparsers.%s.%s" % (name, name), sub2, ver2, s0.payload)))
                secs.append(t)
        elif r < 0.75:
            secs.append(pm.gen_src(rng, u, False, creator, reg=reg))
        elif r < 0.85:
            secs.append(pm.gen_mt(rng, u, creator))
        else:
            secs.append(pm.sec_generic(rng, u, b"EI"))
    return pm.Pel(creator, pm.gen_ph(rng, u, creator), pm.gen_uh(rng, creator), secs)


def check_pel(ctx, pel, plugins, rng, via=None):
    data = pel.encode()
    del REQUESTS[:]
    fxlog.reset()
    cfg = harness.make_config(every_pel=True, allow_plugins=plugins)
    ctx.current = {"pel_hex": data[:3000], "sections": [s.note or s.kind for s in pel.sections], "creator": pel.creator, "plugins": plugins}
    consults = any(s.kind in ("UD", "ED", "SRC") for s in pel.sections)
    ctx.case(data + bytes([plugins]), consults,
             sample={"creator": pel.creator, "sections": [s.note or s.kind for s in pel.sections], "plugins": plugins}
             if ctx.evaluations < 3 else None)
    o = via(data, plugins) if via else harness.decode(data, cfg)
    reqs, calls = list(REQUESTS), list(fxlog.CALLS)
    if o.kind != "doc":
        ctx.violation("C18/pel-lost", "a PEL whose parser modules misbehave was not decoded at all: %r (sections %s)" %
                      (o.exc, ctx.current["sections"]), data=data)
        return None
    # --- which modules were consulted
    ctx.count("imports.pels_checked")
    allowed = expected_requests(pel, plugins)
    bad = [r for r in reqs if r not in allowed]
    if bad:
        key = "C18/import-with-plugins-disabled" if not plugins else "C18/unexpected-module-requested"
        ctx.violation(key, "import system was asked for %s; the sections of this PEL name only %s" % (bad[:5], sorted(allowed)[:12]), data=data)
    if not plugins:
        ctx.count("noplugins.decodes")
        if calls:
            ctx.violation("C18/parser-run-with-plugins-disabled", "parser modules were run although plugins are disabled: %s" %
                          [(c["kind"], c["module"]) for c in calls][:5], data=data)
        return o
    # --- user data parsers: the right module with the right arguments, in section order
    want = []
    for s in pel.sections:
        if s.kind in ("UD", "ED") and s.m.get("flavor", "").startswith("fx_") and s.m["flavor"] not in ("fx_badimport", "fx_brokenimport"):
            want.append({"module": ud_module(s.m["creator"], s.m["comp"]), "subtype": s.m["sub"], "version": s.m["ver"], "data": s.payload})
    got = [{k: c[k] for k in ("module", "subtype", "version", "data")} for c in calls if c["kind"] == "ud"]
    ctx.counters["ud.calls_checked"] += len(want)
    if got != want:
        k = next((i for i in range(min(len(got), len(want))) if got[i] != want[i]), min(len(got), len(want)))
        g, w = (got[k] if k < len(got) else None), (want[k] if k < len(want) else None)
        field = "missing-call" if g is None else ("extra-call" if w is None else next(f for f in ("module", "subtype", "version", "data") if g[f] != w[f]))
        ctx.violation("C18/ud-parser-call/" + field, "user-data parser call #%d: got %s, the section says %s" %
                      (k, short(g), short(w)), data=data)
    # --- SRC parsers
    wsrc = []
    for s in pel.sections:
        if s.kind == "SRC":
            mod, ref, words = src_expected_call(s)
            if mod:
                wsrc.append((mod, ref, words, s))
            if s.m["creator"] == "O":
                if s.m["ascii"][:2] == "BC":
                    ctx.count("osrc.bc_routing")
                elif s.m["ascii"][4:6].lower() in ("fx", "fy", "e5"):
                    ctx.count("osrc.component_routing")
    gsrc = [c for c in calls if c["kind"] == "src"]
    ctx.counters["src.calls_checked"] += len(wsrc)
    if len(gsrc) != len(wsrc):
        ctx.violation("C18/src-parser-call/count", "%d SRC parser calls recorded %s, %d SRC sections are served by fixture parsers %s" %
                      (len(gsrc), [c["module"] for c in gsrc], len(wsrc), [w[0] for w in wsrc]), data=data)
    else:
        for c, (mod, ref, words, s) in zip(gsrc, wsrc):
            if c["module"] != mod:
                ctx.violation("C18/src-parser-call/module", "SRC %r was handed to %s, expected %s" % (ref.strip(), c["module"], mod), data=data)
            elif c["refcode"].strip() != ref.strip():
                ctx.violation("C18/src-parser-call/refcode", "SRC parser got reference code %r, the section holds %r" % (c["refcode"], ref), data=data)
            elif len(c["words"]) != 8 or any(g != (w if w is not None else "00000000") for g, w in zip(c["words"], words)):
                # words beyond the section's valid word count are not part of the SRC: the parser gets 00000000 for them (as
                # the section's own display leaves them out), never whatever the unused bytes hold
                ctx.violation("C18/src-parser-call/words", "SRC parser got words %s, the section holds words 2..9 = %s" % (c["words"], words), data=data)
    # --- results: SRC Details of fixture SRC parsers
    names = pel.names()
    for name, s in zip(names[2:], pel.sections):
        entry = o.doc.get(name, {})
        if s.kind == "SRC":
            mod, ref, words = src_expected_call(s)
            if mod:
                beh = ref[7:8]
                if beh in "EFDCAB":
                    if "SRC Details" in entry:
                        ctx.violation("C18/src-details-after-failure", "SRC parser %s (behaviour %s) failed/returned nothing but SRC Details "
                                      "is %r" % (mod, beh, entry["SRC Details"]), data=data)
                else:
                    exp = fxlog.src_result(mod, ref, [w if w is not None else "00000000" for w in words])
                    gotd = entry.get("SRC Details")
                    if not isinstance(gotd, dict) or gotd.get("FX Refcode") != exp["FX Refcode"] or gotd.get("FX SRC Parser") != exp["FX SRC Parser"]:
                        ctx.violation("C18/src-details", "SRC Details %r, the parser returned %r" % (gotd, exp), data=data)
            # callout parser routing
            for c in s.m["callouts"]:
                if c.fru and c.fru["flags"] & pm.FRU_PROC and s.m["creator"] in "BM":
                    ctx.count("callout.calls_checked")
                    modc = "calloutparsers.%scallouts.%scallouts" % (s.m["creator"].lower(), s.m["creator"].lower())
                    if not any(k["kind"] == "callout" and k["module"] == modc and k["procedure"] == c.fru["pn"] for k in calls):
                        ctx.violation("C18/callout-parser-call", "no call of %s for procedure %r recorded" % (modc, c.fru["pn"]), data=data)
    return o


def short(c):
    if c is None:
        return None
    d = dict(c)
    d["data"] = d["data"][:12].hex() + "..(%d bytes)" % len(d["data"])
    return d


def containment(ctx, pel, rng, base_doc):
    """A failing parser affects only its own section: flip every failing fixture section to behaviour OK and compare the rest."""
    failing = [i for i, s in enumerate(pel.sections) if s.kind in ("UD", "ED") and
               s.m.get("flavor") in ("fx_raise", "fx_none", "fx_importerror", "fx_keyerror", "fx_release_raise",
                                   "fx_release_none", "fx_raise_empty", "fx_raise_multiline")]
    fsrc = [i for i, s in enumerate(pel.sections) if s.kind == "SRC" and src_expected_call(s)[0] and s.m["ascii"][7:8] in "EFAB"]
    if not failing and not fsrc:
        return
    import copy
    twin = pm.Pel(pel.creator, pel.ph, pel.uh, list(pel.sections))
    own = set()
    for i in failing:
        s = pel.sections[i]
        t = pm.Sec(s.sid, s.ver, s.sub, s.comp, s.body, s.kind, dict(s.m))
        off = 0 if s.kind == "UD" else 4
        t.body = s.body[:off] + b"K" + s.body[off + 1:]
        twin.sections[i] = t
        own.add(i)
    for i in fsrc:
        s = pel.sections[i]
        t = pm.Sec(s.sid, s.ver, s.sub, s.comp, s.body, s.kind, dict(s.m))
        b = bytearray(s.body)
        b[40 + 7] = ord("0")                # reference code char 7: behaviour OK
        t.body = bytes(b)
        twin.sections[i] = t
        own.add(i)
    o2 = harness.decode(twin.encode(), harness.make_config(every_pel=True))
    ctx.count("containment.pairs")
    if o2.kind != "doc":
        ctx.violation("C18/containment-twin-not-decoded", "twin PEL with well-behaved parsers not decoded: %r" % (o2.exc,))
        return
    names = pel.names()
    for k, name in enumerate(names):
        idx = k - 2
        if idx in own:
            continue
        if base_doc.get(name) != o2.doc.get(name):
            ctx.violation("C18/failing-parser-affected-other-section", "section %r differs between a PEL whose parser for section(s) %s "
                          "fails and the same PEL with a well-behaved parser" % (name, sorted(own)), data=pel.encode())
            return
    for i in failing:
        e = base_doc.get(names[i + 2], {})
        try:
            ok = isinstance(e.get("Error"), str) and pm.parse_dump(e.get("Data")) == pel.sections[i].payload
        except ValueError:
            ok = False
        if not ok:
            ctx.violation("C18/failing-parser-section", "section of a failing parser lacks the error note or the raw hex dump: %r" %
                          ({k: (v if k != "Data" else "...") for k, v in e.items()},), data=pel.encode())


# ---------------------------------------------------------------------------
def run_m2c00(spec, ctx, rng, u):
    import udparsers.m2c00.m2c00 as m
    from io_drawer.drawer_type import MEX_DRAWER_TYPE, NIMITZ_DRAWER_TYPE
    log = []
    o_h, o_i, o_t = m.parse_hlog_data, m.parse_ilog_data, m.parse_trace_data

    def wrap(kind, f):
        def w(data, path):
            log.append((kind, os.path.basename(path), bytes(data)))
            return f(data, path)
        return w
    m.parse_hlog_data, m.parse_ilog_data, m.parse_trace_data = wrap("hlog", o_h), wrap("ilog", o_i), wrap("trace", o_t)
    want_kind = {72: ("hlog", "History Log"), 73: ("ilog", "ILOG"), 84: ("trace", "Trace")}
    files = {1: {"hlog": "mex_pte.h", "ilog": "mex_pte.h", "trace": "mexStringFile"},
             2: {"hlog": "nimitz_pte.h", "ilog": "nimitz_pte.h", "trace": "nimitzStringFile"}}
    for _ in range(spec["reps"]):
        for sub in range(256):
            fixed = None
            for ver in (0, 1, 2, 3, rng.randrange(4, 256)):
                if fixed is not None and sub % 2 == 0:
                    payload = fixed           # byte-identical payload under another version: decoded again, not remembered
                else:
                  payload = fixed = rng.choice([iogen.gen_ilog(rng, [], 4), iogen.gen_trace(rng, [], nentries=2), bytes(rng.randrange(256) for _ in range(40)),
                                      bytes(rng.randrange(1, 256) for _ in range(rng.choice([5, 13, 45]))) + b"\0" * 3,
                                      bytes(rng.randrange(256) for _ in range(44)) + b"\0" * 4])
                del log[:]
                ctx.current = {"subtype": sub, "version": ver, "payload": payload[:200]}
                ctx.case(bytes([sub, ver]) + payload, sub in want_kind)
                ctx.count("m2c00.routing_checked")
                # through the real section decoder (creator M, component 0x2C00)
                s = pm.sec_ud(rng, u, "M", 0x2C00, sub, ver, payload, expect_mode="plugin")
                pel = pm.Pel("M", pm.gen_ph(rng, u, "M"), pm.gen_uh(rng, "M"), [s, pm.gen_mt(rng, u, "M")])
                o = harness.decode(pel.encode())
                if o.kind != "doc":
                    ctx.violation("C18/m2c00/pel-lost", "PEL with an I/O drawer section (subtype %d version %d) not decoded: %r" % (sub, ver, o.exc))
                    continue
                e = {k: v for k, v in o.doc["User Data"].items() if k not in ("Section Version", "Sub-section type", "Created by")}
                if sub in want_kind and ver in files:
                    kind, key = want_kind[sub]
                    if [(x[0], x[1], x[2]) for x in log] != [(kind, files[ver][kind], payload)]:
                        ctx.violation("C18/m2c00/routing", "subtype %d version %d: decoders called %s, expected %s with %s and the exact payload" %
                                      (sub, ver, [(x[0], x[1], len(x[2])) for x in log], kind, files[ver][kind]))
                    elif list(e) != [key] or not isinstance(e[key], list):
                        ctx.violation("C18/m2c00/result", "subtype %d version %d: section shows keys %s, expected %r" % (sub, ver, list(e), key))
                elif sub in want_kind:
                    if log or "Error" not in e or pm.parse_dump(e.get("Data", [])) != payload:
                        ctx.violation("C18/m2c00/bad-version", "subtype %d with unsupported version %d: decoders called %s, section keys %s "
                                      "(expected Error + raw dump)" % (sub, ver, [x[0] for x in log], list(e)))
                else:
                    try:
                        ok = not log and list(e) == ["Data"] and pm.parse_dump(e["Data"]) == payload
                    except ValueError:
                        ok = False
                    if not ok:
                        ctx.violation("C18/m2c00/unsupported-subtype", "subtype %d: decoders called %s, section keys %s (expected a raw dump)" %
                                      (sub, [x[0] for x in log], list(e)))
                # direct call always returns a JSON object
                try:
                    j = json.loads(m.parseUDToJson(sub, ver, memoryview(payload)))
                    if not isinstance(j, dict):
                        raise ValueError("not an object")
                except Exception as ex:
                    ctx.violation("C18/m2c00/not-a-json-object", "parseUDToJson(%d, %d, ...) did not return a JSON object: %r" % (sub, ver, ex))


PROBE = r'''
import atexit, sys, json
def _report():
    mods = sorted(m for m in sys.modules if m.split(".")[0] in ("udparsers", "srcparsers", "calloutparsers"))
    sys.stderr.write("\nVF-PROBE " + json.dumps(mods) + "\n")
atexit.register(_report)
'''


def run_noplugins(spec, ctx, rng, u, reg):
    from vf import dirs
    root = harness.scratch_root()
    boot = os.path.join(root, "probe_boot.py")
    with open(boot, "w") as f:
        f.write(PROBE + "import runpy, os\nsys.path.insert(0, %r)\nfrom vf import env, harness\nenv.setup_path()\nharness.plugins_on()\n"
                "del sys.modules['udparsers'], sys.modules['srcparsers'], sys.modules['calloutparsers']\n"
                "sys.argv = [env.PELTOOL] + sys.argv[1:]\nrunpy.run_path(env.PELTOOL, run_name='__main__')\n" % env.VERIF)
    for i in range(spec["n"]):
        d = dirs.PelDir(os.path.join(root, "np%d" % i))
        pels = [build_pel(rng, u, reg, False) for _ in range(6)]
        for k, p in enumerate(pels):
            d.add(dirs.Entry("p%d.pel" % k, p, p.encode()))
        e0 = d.entries[0]
        os.rename(e0.path, os.path.join(d.root, "20240101_%08X.pel" % e0.pel.eid))      # findable by --id
        e0.path = os.path.join(d.root, "20240101_%08X.pel" % e0.pel.eid)
        for argv in (["-p", d.root, "-a", "-E", "-P"], ["-p", d.root, "-l", "-E", "-P"], ["-f", d.entries[0].path, "-E", "-P"],
                     ["-p", d.root, "-P", "-i", "%08X" % e0.pel.eid], ["-p", d.root, "-P", "--bmc-id", str(e0.pel.bmcid)],
                     ["-p", d.root, "-P", "--plid", "%08X" % e0.pel.plid], ["-p", d.root, "-P", "--src", "B"],
                     ["-p", d.root, "-P", "-j", "-o", d.root + "_out"], ["-p", d.root, "-P", "-a", "-x"]):
            os.makedirs(d.root + "_out", exist_ok=True)
            ctx.current = {"argv": argv}
            ctx.case(repr(argv) + str(i) + str(spec["rseed"]), True)
            p = subprocess.run([env.PY, boot] + argv, env=env.child_env(), stdout=subprocess.PIPE, stderr=subprocess.PIPE, timeout=120)
            ctx.count("noplugins.subprocess_runs")
            err = p.stderr.decode("utf-8", "replace")
            line = [ln for ln in err.split("\n") if ln.startswith("VF-PROBE ")]
            if not line:
                ctx.violation("C18/noplugins-probe-failed", "probe did not report (rc=%d): %r" % (p.returncode, err[-300:]))
                continue
            mods = json.loads(line[-1][9:])
            if mods:
                ctx.violation("C18/import-with-plugins-disabled", "peltool %s imported parser modules %s" % (" ".join(argv[2:5]), mods[:6]))
        import shutil
        shutil.rmtree(d.root + "_out", ignore_errors=True)
        d.remove()
        for p in pels:
            check_pel(ctx, p, False, rng)


def check_empty_payload(ctx, rng, u):
    """A user-data section that carries NO payload (its length says: header only).  Whether a log with such a section is
    accepted is not for this property to say - the pinned tree refuses it as a whole.  But IF the section is shown, its
    parser was consulted with the (empty) payload like with any other: a section is never rendered behind its parser's back."""
    c, comp = rng.choice([x for x in gen.FX_UD if x[0] in "OBM"])
    ext = rng.random() < 0.3
    s = pm.sec_ud(rng, u, c, comp, rng.randrange(256), rng.randrange(256), b"", ext_creator=c if ext else None, expect_mode="plugin")
    pel = pm.Pel(c, pm.gen_ph(rng, u, c), pm.gen_uh(rng, c), [s, pm.gen_mt(rng, u, c)])
    data = pel.encode()
    fxlog.reset()
    ctx.current = {"pel_hex": data, "sections": ["UD without payload for %s%04X" % (c, comp)], "plugins": True}
    ctx.case(data + b"empty", True)
    o = harness.decode(data, harness.make_config(every_pel=True, allow_plugins=True))
    ctx.count("ud.empty_payload_sections")
    if o.kind != "doc":
        ctx.count("ud.empty_payload_log_refused")
        return
    name = "Extended User Data" if ext else "User Data"
    calls = [x for x in fxlog.CALLS if x["kind"] == "ud" and x["module"] == ud_module(c, comp)]
    if name in o.doc and not calls:
        ctx.violation("C18/ud-parser-not-consulted/empty-payload",
                      "a %s section of %s/%04X without payload is shown as %r, but %s was never called" %
                      (name, c, comp, o.doc[name], ud_module(c, comp)), data=data)
    elif calls and (calls[0]["data"] != b"" or calls[0]["subtype"] != s.m["sub"] or calls[0]["version"] != s.m["ver"]):
        ctx.violation("C18/ud-parser-call/data", "parser of a section without payload was called with %s" % short(calls[0]), data=data)


def run(spec, ctx):
    harness.repo()
    sys.meta_path.insert(0, Recorder())
    rng = random.Random(spec["rseed"])
    u = pm.Uniq(spec["shard"] * 10_000_000)
    reg = harness.registry_model()
    if spec["mode"] == "m2c00":
        return run_m2c00(spec, ctx, rng, u)
    if spec["mode"] == "noplugins":
        return run_noplugins(spec, ctx, rng, u, reg)
    if spec["mode"] == "cli":
        # the same checks with the PEL decoded by a peltool command line: a full-display mode alone or with options on
        # the line that do not apply to it (lower-precedence mode options, either spelling)
        from vf import cliparse
        root = harness.scratch_root()
        d = os.path.join(root, "climodes")
        os.makedirs(d, exist_ok=True)
        excl = os.path.join(root, "cli-excl.txt")
        with open(excl, "w") as f:
            f.write("ZZZZZZZZ\n")
        for i in range(spec["n"]):
            plugins = rng.random() < 0.8
            pel = build_pel(rng, u, reg, plugins)
            name = "2025010112000000_%08X" % pel.eid
            path = os.path.join(d, name)
            mode = rng.choice(["-f", "-f", "-i", "--bmc-id"])
            soup = cliparse.dominated_options(rng, mode, eid=pel.eid ^ 1, plid=pel.plid, excl=excl, allow_clean=False) \
                if i % 3 else []

            def via(data, plugins):
                with open(path, "wb") as f:
                    f.write(data)
                base = {"-f": ["-f", path], "-i": ["-p", d, "-i", "%08X" % pel.eid], "--bmc-id": ["-p", d, "--bmc-id", str(pel.bmcid)]}[mode]
                argv = base + [x for x in soup if x not in ("-c", "--clean")] + ["-E"] + ([] if plugins else ["-P"])
                ctx.current["command_line"] = " ".join(argv)
                ctx.count("cli.mode_runs")
                if soup:
                    ctx.count("cli.mode_runs_with_dominated_options")
                try:
                    return harness.cli_outcome(argv)
                finally:
                    os.unlink(path)
            check_pel(ctx, pel, plugins, rng, via=via)
        return
    for i in range(spec["n"]):
        plugins = rng.random() < 0.8
        pel = build_pel(rng, u, reg, plugins)
        if plugins and pel.creator in "YZ" and any(x.kind == "SRC" for x in pel.sections):
            ctx.count("src.parser_module_fails_at_import")
        o = check_pel(ctx, pel, plugins, rng)
        if o is not None and plugins:
            containment(ctx, pel, rng, o.doc)
        if i % 10 == 3:
            check_empty_payload(ctx, rng, u)
