"""C06 - the printed JSON parses back to exactly the decoded document."""
import json
import os
import random

from vf import dirs, gen, harness
from vf import pelmodel as pm
from vf.refmodels import strip_ws_outside_strings

ID = "C06"
LEVEL = "exploration"
RULE = ("(a) direct prettyPrint calls on json.dumps(doc, indent=4) of generated documents (nesting <= 6; keys/values from "
        "an alphabet weighted towards \" : \\ { } [ ] , blank, non-ASCII, keys > 34 chars, empty keys, strings starting "
        "with '\":'), widths 34/29/others; (b) decodes of PELs whose text fields, BMC JSON/text user data and fixture "
        "plugin output contain such strings; (c) CLI -f/-a/-l/--plid/--src/-j on directories of those PELs.  A wrapper "
        "rebound over peltool.prettyPrint is the monitor: it sees every pretty-print of every path and checks "
        "json.loads(out) == json.loads(in) (ordered pairs) and equality after JSON-aware whitespace removal.  "
        "Non-trivial: document contains at least one key/value line; distinct = distinct input text.")
ASSUMPTIONS = ["alignment itself (column position) is not constrained", "NaN/Infinity are not JSON and never generated"]

STATE = {"last_in": None, "calls": 0}


def install(ctx):
    pt = harness.repo()["pt"]
    if not hasattr(pt, "prettyPrint"):
        # the internal helper was renamed/inlined: the wrapper is unattached; the boundary oracles decide
        # (printed documents must parse and equal the encoder's model / the in-process decode)
        ctx.count("unattached.prettyPrint")
        return None
    orig = pt.prettyPrint

    def prettyPrint(Mdata, desiredSpace=34, *a, **k):
        out = orig(Mdata, desiredSpace, *a, **k)
        check(ctx, Mdata, out, desiredSpace)
        return out
    pt.prettyPrint = prettyPrint
    return orig


def check(ctx, s, t, width):
    ctx.counters["prettyPrint.calls.width%s" % width] += 1
    STATE["calls"] += 1
    try:
        want = json.loads(s, object_pairs_hook=list)
    except ValueError:
        ctx.count("prettyPrint.input-not-json")
        return
    STATE["last_in"] = want
    where = ctx.current
    try:
        got = json.loads(t, object_pairs_hook=list)
    except ValueError as e:
        ctx.violation("C06/output-not-json", "prettyPrint output does not parse: %s; input %r -> output %r" %
                      (e, s[:300], t[:300]), input_text=s[:5000])
        return
    if got != want:
        ctx.violation("C06/document-changed", "prettyPrint changed the document: %s" % first_diff(want, got), input_text=s[:5000])
        return
    if strip_ws_outside_strings(t) != strip_ws_outside_strings(s):
        ctx.violation("C06/non-whitespace-change", "prettyPrint changed characters other than whitespace between tokens",
                      input_text=s[:5000])
    # whitespace may only be inserted between a key and its value: line structure must be preserved
    if t.count("\n") != s.count("\n"):
        ctx.violation("C06/line-structure", "prettyPrint changed the number of lines %d -> %d" % (s.count("\n"), t.count("\n")))
    ctx.count("prettyPrint.checked")


def first_diff(a, b, path="$"):
    if type(a) != type(b):
        return "%s: %r vs %r" % (path, a, b)
    if isinstance(a, list):
        if len(a) != len(b):
            return "%s: %d vs %d items" % (path, len(a), len(b))
        for i, (x, y) in enumerate(zip(a, b)):
            if x != y:
                if isinstance(x, tuple) and isinstance(y, tuple) and len(x) == 2 and len(y) == 2:
                    if x[0] != y[0]:
                        return "%s: key %r became %r" % (path, x[0], y[0])
                    return first_diff(x[1], y[1], "%s.%s" % (path, x[0]))
                return first_diff(x, y, "%s[%d]" % (path, i))
    return "%s: %r became %r" % (path, a, b)


ALPHA = "\"\"\"::::\\\\{{}}[],,   ab1é€\t\n"


def hostile_str(rng, maxlen=30):
    r = rng.random()
    if r < 0.15:
        return rng.choice(["\":", "\": ", "\":x", "a\": b", "{", "}", "[", "\\", "\\\"", "\\\":", " ", "", "é\": ü", "\n\": ",
                           "x\": {", "\": {", "\":\n", "line \"x\": y", "\"", "\"\"", ":\"", "k\":", "\\\\\":"])
    n = rng.randrange(0, maxlen)
    return "".join(rng.choice(ALPHA) for _ in range(n))


def hostile_key(rng):
    r = rng.random()
    if r < 0.1:
        return ""
    if r < 0.25:
        return "K" * rng.randrange(30, 60) + hostile_str(rng, 6)
    return hostile_str(rng, 24)


def gen_doc(rng, depth=0):
    r = rng.random()
    if depth >= 6 or r < 0.3:
        rr = rng.random()
        if rr < 0.6:
            return hostile_str(rng)
        if rr < 0.75:
            return rng.randrange(-10**9, 10**9)
        if rr < 0.85:
            return rng.choice([True, False, None])
        return rng.choice([1.5, -0.25, 1e20, 0.0])
    if r < 0.6:
        return [gen_doc(rng, depth + 1) for _ in range(rng.randrange(0, 5))]
    d = {}
    for _ in range(rng.randrange(0, 6)):
        d[hostile_key(rng)] = gen_doc(rng, depth + 1)
    return d


def plan(tier, seed):
    nd = 9000 if tier == "quick" else 150000
    specs = [{"mode": "docs", "n": nd, "rseed": seed * 1000 + i} for i in range(8)]
    npel = 2500 if tier == "quick" else 50000
    specs += [{"mode": "pels", "n": npel, "rseed": seed * 1000 + 100 + i, "registry": i % 2 == 0} for i in range(4)]
    ncli = 50 if tier == "quick" else 1000
    specs += [{"mode": "cli", "n": ncli, "rseed": seed * 1000 + 200 + i, "registry": i % 2 == 0} for i in range(3)]
    specs += [{"mode": "sub", "n": 10 if tier == "quick" else 200, "rseed": seed * 1000 + 300}]
    return specs


def minimums(tier, counters=None):
    if counters and counters.get("unattached.prettyPrint"):
        return {"boundary.model_compared": 5000, "cli.stdout_parsed": 100, "cli.json_files_parsed": 20, "sub.outputs_parsed": 40,
                "cli.reexport_documents_compared": 30, "cli.junk_neighbours": 100}
    return {"prettyPrint.checked": 20000, "prettyPrint.calls.width34": 15000, "prettyPrint.calls.width29": 40,
            "cli.stdout_parsed": 100, "cli.json_files_parsed": 20, "hostile.colon_quote_in_string": 1000,
            "sub.outputs_parsed": 40, "cli.reexport_documents_compared": 30, "cli.junk_neighbours": 100}


def run(spec, ctx):
    harness.repo()
    pt = harness.repo()["pt"]
    attached = install(ctx) is not None
    rng = random.Random(spec["rseed"])
    u = pm.Uniq(spec["shard"] * 10_000_000)
    reg = harness.registry_model()
    if spec["mode"] == "docs":
        if not attached:
            return
        for i in range(spec["n"]):
            doc = gen_doc(rng)
            if not isinstance(doc, (dict, list)):
                doc = {"k": doc}
            s = json.dumps(doc, indent=4, ensure_ascii=rng.random() < 0.8)
            width = rng.choice([34, 34, 29, 0, 5, 80])
            ctx.current = {"doc_text": s[:3000], "width": width}
            if '\\":' in s or '": ' in s.replace('": ', '', 0):
                pass
            if any(ln.count('":') > 1 or (('":' in ln) and not ln.lstrip().startswith('"')) for ln in s.split("\n")):
                ctx.count("hostile.colon_quote_in_string")
            ctx.case(s, '":' in s, sample=s[:200] if i < 2 else None)
            pt.prettyPrint(s, width)
        return
    if spec["mode"] == "pels":
        for i in range(spec["n"]):
            pel = gen.gen_pel(rng, u, reg=reg, kinds=[("UD", 10), ("ED", 5), ("EH", 3), ("MT", 3), ("LP", 2), ("SS", 3)])
            data = pel.encode()
            ctx.current = {"pel_hex": data[:3000]}
            ctx.case(data, True, sample={"sections": [s.kind for s in pel.sections]} if i < 2 else None)
            before = STATE["calls"]
            o = harness.decode(data)
            if o.kind == "doc" and not attached:
                # boundary oracle: every displayed value must equal the encoder's model (strings with hostile characters
                # in text fields, JSON/text user data, plugin output)
                from vf.props import fidelity
                if o.doc is None:
                    ctx.violation("C06/decode-output-not-json", "parsePEL returned text that does not parse", data=data)
                else:
                    names = [k for k, _ in o.pairs]
                    if names == pel.names():
                        for (name, _), sec in zip(o.pairs, pel.all_sections()):
                            probs = []
                            pm.check_entry(o.doc[name], sec, probs, name)
                            ctx.count("boundary.model_compared")
                            for key, msg in probs:
                                ctx.violation("C06/printed-value-differs-from-log", msg, data=data)
                continue
            if o.kind == "doc":
                if STATE["calls"] == before:
                    ctx.count("prettyPrint.bypassed")
                if o.doc is None:
                    ctx.violation("C06/decode-output-not-json", "parsePEL returned text that does not parse", data=data)
                elif json.loads(o.text, object_pairs_hook=list) != STATE["last_in"]:
                    ctx.violation("C06/decode-output-differs", "parsePEL's text differs from the document it pretty-printed",
                                  data=data)
                if any(ln.count('":') > 1 for ln in o.text.split("\n")):
                    ctx.count("hostile.colon_quote_in_string")
        return
    if spec["mode"] == "sub":
        return run_sub(spec, ctx, rng, u)
    # CLI
    root = harness.scratch_root()
    for i in range(spec["n"]):
        d = dirs.PelDir(os.path.join(root, "d%d" % i))
        ents = dirs.gen_dir_model(rng, u, rng.randrange(1, 9), reg=reg)
        d.extend(ents)
        # a few undecodable neighbours (structure-aware edits of a PEL with callouts: bad sizes, counts, lengths): whatever the
        # tool has to say about them goes to stderr, the text on stdout stays one JSON document
        from vf import mutate
        donor = gen.gen_pel(rng, u, reg=reg, creator="O", primary=True, nopt=2, kinds=[("SS", 3), ("MT", 2), ("UD", 2)])
        edits = [(t, dta) for t, dta in mutate.field_edits(donor, rng) if t[0] in ("subsize", "calloutsize", "locsize", "wordcount", "count", "seclen", "calloutlen")]
        picks = rng.sample(edits, min(4, len(edits))) + [e for e in edits if e[0][:3] == ("subsize", "PE", 23)][:1]
        for k, (t, dta) in enumerate(picks):
            nm = "%s_junk%d" % (rng.choice(["0", "m", "zz", ents[0].name[:3]]), k)
            if all(e.name != nm for e in d.entries):
                d.add(dirs.Entry(nm, None, dta, junk=True))
                ctx.count("cli.junk_neighbours")
                ctx.see("cli.junk_kind", "/".join(str(x) for x in t[:2]))
        if i % 2 == 0:
            # a log with I/O-drawer sections whose decoders format text from the payload (trace strings with arguments that
            # do not fit, %c arguments that are quotes / separators / surrogates): whatever they make of it belongs INTO the
            # document, nothing of it next to it
            from vf import iocli
            iop, _meta = iocli.io_pel(rng, u)
            d.add(dirs.Entry("%s_io%d" % (rng.choice(["0", "zz"]), i), iop, iop.encode(), junk=True))
            ctx.count("cli.io_drawer_neighbours")
        outdir = os.path.join(root, "o%d" % i)
        os.makedirs(outdir, exist_ok=True)
        excl = os.path.join(root, "excl.txt")
        with open(excl, "w") as f:
            f.write("NOTHING\n")
        ents0 = ents[0]
        for argv in (["-p", d.root, "-a", "-E"], ["-p", d.root, "-l", "-E"], ["-p", d.root, "-l"], ["-p", d.root, "-a", "-H", "-N"],
                     ["-p", d.root, "--src", "B", ], ["-p", d.root, "--plid", "%08X" % ents[0].pel.plid],
                     ["-f", ents[0].path, "-E"], ["-p", d.root, "-n", "-E"], ["-p", d.root, "-j", "-E", "-o", outdir],
                     ["-p", d.root, "-a", "-E", "-r"], ["-p", d.root, "-l", "-E", "-r"], ["-p", d.root, "--src-exclude", excl],
                     ["-p", d.root, "--bmc-id", str(ents0.pel.bmcid)], ["-p", d.root, "-a", "-E", "-P"], ["-f", ents[0].path, "-E", "-P"],
                     ["-p", d.root, "-l", "-S", "Critical", "Informational", "-N"]):

            ctx.current = {"argv": argv, "files": [e.name for e in ents]}
            ctx.case(json.dumps(argv[2:]) + str(i) + str(spec["rseed"]), True, sample={"argv": argv[2:]} if i == 0 else None)
            rc, out, err, tb = harness.cli(argv)
            if tb:
                ctx.violation("C06/cli-traceback", "peltool %s raised: %s" % (argv[2:], tb[-400:]))
                continue
            if "-j" in argv:
                # export again after the PEL was replaced by a shorter log with the same name and entry id
                e0 = ents[0]
                short = pm.Pel(e0.pel.creator, e0.pel.ph, e0.pel.uh, e0.pel.sections[:1])
                with open(e0.path, "wb") as f:
                    f.write(short.encode())
                rc, out, err, tb = harness.cli(argv)
                ctx.count("cli.reexports")
                for fn in os.listdir(outdir):
                    with open(os.path.join(outdir, fn)) as f:
                        txt = f.read()
                    try:
                        json.loads(txt)
                        ctx.count("cli.json_files_parsed")
                    except ValueError as e:
                        ctx.violation("C06/json-file-not-json", "file written by -j does not parse: %s" % e, text=txt[:2000])
                    os.unlink(os.path.join(outdir, fn))
                # two more exports over existing files: the PEL replaced by logs (same name, same entry id) whose JSON user
                # data differ only in the blanks INSIDE a string value; every export must leave the file holding the decode
                # of the log that is there now
                for variant in ("fan  1   failed", "fan 1 failed", "fan 1    failed", " fan 1 failed "):
                    ud = pm.sec_ud(rng, u, "O", 0x2000, 1, 1, gen.nul_pad(json.dumps({"Status": variant, "N": [1, " x  y "]}).encode()),
                                   expect_mode="json")
                    twin = pm.Pel(e0.pel.creator, e0.pel.ph, e0.pel.uh, [ud])
                    with open(e0.path, "wb") as f:
                        f.write(twin.encode())
                    rc, out, err, tb = harness.cli(argv + ["-E"])
                    ctx.count("cli.reexports")
                    want = harness.decode(twin.encode()).doc
                    mine = [fn for fn in os.listdir(outdir) if dirs.is_json_name(fn, e0.name, e0.pel.eid)]
                    got = None
                    if mine:
                        with open(os.path.join(outdir, mine[0])) as f:
                            try:
                                got = json.load(f)
                            except ValueError:
                                got = "unparsable"
                    ctx.count("cli.reexport_documents_compared")
                    if want is not None and got != want:
                        ctx.violation("C06/json-file-stale-or-wrong", "after exporting a PEL again (same file name and entry id, user "
                                      "data now %r) the JSON file %s" % (variant, "does not parse" if got == "unparsable" else
                                                                          "is missing" if got is None else
                                                                          "holds a document that differs from the decode: Status %r" %
                                                                          (got.get("User Data", {}).get("Status"),)))
                for fn in os.listdir(outdir):
                    os.unlink(os.path.join(outdir, fn))
                continue
            try:
                doc = json.loads(out, object_pairs_hook=list)
                ctx.count("cli.stdout_parsed")
            except ValueError as e:
                ctx.violation("C06/cli-stdout-not-json", "stdout of peltool %s does not parse: %s" % (argv[2:], e), stdout=out[:3000])
                continue
            if attached and (argv[0] == "-f" or "--bmc-id" in argv) and doc != STATE["last_in"] and not isinstance(doc, str):
                ctx.violation("C06/cli-document-differs", "-f printed a document different from the decoded one")
            if attached and ("-l" in argv or "--src" in argv or "--plid" in argv or "--src-exclude" in argv):
                if doc != STATE["last_in"]:
                    ctx.violation("C06/cli-list-differs", "%s printed a list different from the summary it built" % argv[2:])
        d.remove()


UNI = ["Ger\u00e4t \u00fcberhitzt \u2013 \u6e29\u5ea6", "\ud83d", "half \udc00 pair", "\U0001f525 fire", "nel\u0085x", "ls\u2028x", "ps\u2029x",
       "\u00e9" * 40, "plain ascii", "tab\there", "quote \"\u00e9\": x"]


def run_sub(spec, ctx, rng, u):
    """peltool in its own process with a real stdout (pipe) / real files, several output encodings"""
    import shutil
    root = harness.scratch_root()
    for i in range(spec["n"]):
        d = dirs.PelDir(os.path.join(root, "s%d" % i))
        docs = {}
        for k in range(3):
            doc = {u.token(6): rng.choice(UNI), u.token(6) + rng.choice(["", "\u00e9", "\udc00"]): [rng.choice(UNI), {"n": rng.choice(UNI)}]}
            raw = json.dumps(doc)                       # ASCII with \uXXXX escapes: valid for every text incl. lone surrogates
            pel = pm.Pel("O", pm.gen_ph(rng, u, "O"), pm.gen_uh(rng, "O", sev=0x40, flags=0xA000),
                         [pm.sec_ud(rng, u, "O", 0x2000, 1, 1, gen.nul_pad(raw.encode()), expect_mode="json"), pm.gen_mt(rng, u, "O")])
            e = dirs.Entry("p%d_%08X.pel" % (k, pel.eid), pel, pel.encode())
            d.add(e)
            docs[pel.eid] = doc
        outdir = os.path.join(root, "so%d" % i)
        for envx in ({}, {"PYTHONIOENCODING": "ascii"}, {"PYTHONIOENCODING": "utf-8:strict"}, {"LC_ALL": "C", "PYTHONUTF8": "0", "PYTHONCOERCECLOCALE": "0"}):
            for argv in (["-p", d.root, "-a"], ["-f", d.entries[0].path], ["-p", d.root, "-j", "-o", outdir], ["-p", d.root, "-l"]):
                shutil.rmtree(outdir, ignore_errors=True)
                os.makedirs(outdir)
                ctx.current = {"argv": argv, "env": envx, "user_data": {hex(k): v for k, v in list(docs.items())[:2]}}
                ctx.case(repr(argv) + repr(sorted(envx.items())) + str(i) + str(spec["rseed"]), True,
                         sample={"argv": argv[2:] if argv[0] == "-p" else argv[:1], "env": envx} if i == 0 else None)
                p = harness.cli_sub(argv, extra_env=envx)
                if p is None or p.returncode != 0:
                    ctx.violation("C06/sub-failed", "peltool %s (env %s): rc=%s stderr=%r" %
                                  (argv[-2:], envx, getattr(p, "returncode", "watchdog"), (p.stderr if p else b"")[-300:]))
                    continue
                texts = []
                if "-j" in argv:
                    for fn in sorted(os.listdir(outdir)):
                        with open(os.path.join(outdir, fn), "rb") as f:
                            texts.append(f.read())
                    if len(texts) != 3:
                        ctx.violation("C06/sub-json-files", "-j (env %s) wrote %d files for 3 PELs; stderr=%r" % (envx, len(texts), p.stderr[-300:]))
                else:
                    texts.append(p.stdout)
                for t in texts:
                    try:
                        got = json.loads(t.decode(envx.get("PYTHONIOENCODING", "utf-8").split(":")[0], "surrogatepass"))
                        ctx.count("sub.outputs_parsed")
                    except Exception as e:
                        ctx.violation("C06/sub-output-not-json", "output of peltool %s (env %s) does not parse: %s" % (argv[-2:], envx, e),
                                      tail=t[-300:])
                        continue
                    found = got if isinstance(got, list) else [got]
                    if "-l" in argv:
                        if len(got) != 3:
                            ctx.violation("C06/sub-list", "-l (env %s) lists %d of 3 PELs" % (envx, len(got)))
                        continue
                    for docx in found:
                        try:
                            eid = pm.as_hex(docx["Private Header"]["Entry Id"])
                        except Exception:
                            ctx.violation("C06/sub-document", "a printed document has no entry id (env %s)" % (envx,))
                            continue
                        want = docs.get(eid, {})
                        bad = [k for k, v in want.items() if docx.get("User Data", {}).get(k) != v]
                        if bad:
                            ctx.violation("C06/sub-value-changed", "peltool %s (env %s): user data %r printed as %r, decoded value %r" %
                                          (argv[-2:], envx, bad[0], docx.get("User Data", {}).get(bad[0]), want[bad[0]]))
                    if argv[-1] == "-a" and len(found) != 3:
                        ctx.violation("C06/sub-array", "-a (env %s) printed %d of 3 documents" % (envx, len(found)))
        shutil.rmtree(outdir, ignore_errors=True)
        d.remove()
