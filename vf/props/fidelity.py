"""Shared engine of C01-C04: generate well-formed PELs with the independent
encoder, decode them with the real parsePEL while monitors watch, compare the
result with the model.  Each property selects its own monitors (`focus`) and its
own workload shape."""
import json
import random
import re

from vf import gen, harness, tables
from vf import pelmodel as pm
from vf import fxlog

OCALLOUTS = {  # frozen copy of the shipped BMC maintenance procedures (pinned commit)
    "BMC0001": ["A problem has been detected in the eBMC firmware."],
    "BMC0002": ["Save any dump data, and then contact your next level ", "of support for assistance."],
    "BMC0003": ["A problem was detected in the firmware of the ", "system processor module."],
    "BMC0004": ["The system detected an error with the firmware of ", "a peripheral interface bus."],
    "BMC0005": ["A load fault is occurring on a power supply in the system unit."],
    "BMC0006": ["A system uncorrectable error has occurred."],
    "BMC0007": ["A system data mismatch has been detected."],
    "BMC0008": ["Failed parts present in the system. Service needed"],
}


def kind_label(sec):
    if sec.kind in ("PH", "UH", "EH", "MT", "LP", "UD", "ED"):
        return sec.kind
    if sec.kind == "SRC":
        return sec.sid.decode()
    n = sec.sid.decode("latin-1")
    return n if n in tables.sectionNames else "UNK"


# ---------------------------------------------------------------------------
# monitors
def check_cursor(events, pel, data, ctx, tag, final_index=None):
    """Deciding cursor monitor (C01).  Every movement of the main stream's cursor (recorded by the `index` descriptor,
    whatever method caused it) must stay inside one section: a movement a -> b may not pass over a section boundary
    (it may start or end exactly on one), in either direction; and the cursor must end at the end of the log."""
    if final_index is not None and final_index != len(data):
        ctx.violation("C01/cursor-end", "%s: cursor ended at %d, log has %d bytes" % (tag, final_index, len(data)), data=data)
    if not events:
        ctx.count("cursor.unobserved")
        return
    main = events[0][0]
    bounds = sorted(off for off, _ in pel.offsets())
    import bisect
    pos = None
    for sid, start, n, kind, _ in events:
        if sid != main:
            continue
        ctx.count("cursor.reads")
        lo, hi = (start, start + n) if n >= 0 else (start + n, start)
        k = bisect.bisect_right(bounds, lo)
        if k < len(bounds) and bounds[k] < hi:
            ctx.violation("C01/read-straddles-section-boundary" if n >= 0 else "C01/cursor-moved-back-across-sections",
                          "%s: the cursor moved %d -> %d, passing over the section boundary at %d without stopping there "
                          "(sections start at %s)" % (tag, start, start + n, bounds[k], bounds[:12]), data=data)
            return
        pos = start + n
    if final_index is None and pos != len(data):
        ctx.violation("C01/cursor-end", "%s: cursor ended at %s, log has %d bytes" % (tag, pos, len(data)), data=data)
    ctx.count("cursor.checked")


class HeaderLog:
    """Auxiliary: where parseHeader was called (must be exactly the section starts)."""
    def __init__(self):
        self.positions = []
        self.attached = False

    def attach(self):
        pt = harness.repo()["pt"]
        if not hasattr(pt, "parseHeader"):
            return
        orig = pt.parseHeader
        log = self

        def parseHeader(stream):
            log.positions.append(stream.index)
            return orig(stream)
        pt.parseHeader = parseHeader
        self.attached = True


HEADERLOG = HeaderLog()


def expected_error_details(sec, reg):
    m = sec.m
    if m["type"] not in ("BD", "11", "BC"):
        return None
    code = "0x" + m["ascii"][4:8]
    for r in reg:
        if r["type"] != m["type"] or code not in r["reason"]:
            continue
        return r
    return None


def check_error_details(entry, sec, reg, problems, where):
    r = expected_error_details(sec, reg)
    if r is None and isinstance(entry, dict) and entry.get("Error Details"):
        # no registry entry is defined for exactly this type / reason code: nothing may be borrowed from a similar one
        problems.append(("Error Details", "%s: the registry defines no message for %s/%r, yet Error Details shows %r" %
                         (where, sec.m["type"], sec.m["ascii"][4:8], str(entry.get("Error Details"))[:160])))
        return True
    if r is None or not r["message"]:
        return False
    det = entry.get("Error Details")
    if not isinstance(det, dict) or "Message" not in det:
        problems.append(("Error Details", "%s: registry defines a message for %s/%s but Error Details is %r" %
                         (where, r["type"], r["reason"], det)))
        return True
    words = sec.m["words"]
    shown = det["Message"]
    if not r["args"]:
        if shown != r["message"]:
            problems.append(("Error Details.Message", "%s: message %r shown as %r" % (where, r["message"], shown)))
    else:
        parts = re.split(r"%([1-9])", r["message"])
        rx, want = "", []
        for i, p in enumerate(parts):
            if i % 2 == 0:
                rx += re.escape(p)
            else:
                n = int(p)
                if n <= len(r["args"]):
                    rx += r"(0[xX][0-9a-fA-F]+)"
                    want.append(words[int(r["args"][n - 1][-1]) - 2])
                else:
                    rx += re.escape("%" + p)
        mm = re.fullmatch(rx, shown, re.S)
        if not mm:
            problems.append(("Error Details.Message", "%s: message template %r (args %s) shown as %r" %
                             (where, r["message"], r["args"], shown)))
        else:
            got = [int(g, 16) for g in mm.groups()]
            if got != want:
                problems.append(("Error Details.Message", "%s: message %r filled with %s, the referenced words are %s" %
                                 (where, r["message"], [hex(g) for g in got], [hex(w) for w in want])))
    for num, wc in r["w69"].items():
        if "Description" not in wc:
            continue
        key = wc["AdditionalDataPropSource"]
        v = det.get(key)
        ok = isinstance(v, list) and len(v) == 2 and v[1] == wc["Description"]
        if ok:
            try:
                ok = (v[0] if isinstance(v[0], int) else pm.as_hex(v[0])) == words[int(num) - 2]
            except ValueError:
                ok = False
        if not ok:
            problems.append(("Error Details.Words6To9", "%s: word %s description %r shown as %r, word is %#x" %
                             (where, num, wc["Description"], v, words[int(num) - 2])))
    return True


def proc_desc(creator, proc, allow_plugins):
    """Expected "Description" of a maintenance procedure callout (None = must be absent)."""
    if not allow_plugins:
        return None
    c = creator.lower()
    if c == "o":
        return OCALLOUTS.get(proc)
    if c in ("b", "m"):
        return fxlog.PROC_DESCS.get(proc)
    return None


def check_proc_descs(entry, sec, allow_plugins, problems, where, ctx):
    cs = entry.get("Callout Section")
    if not isinstance(cs, dict) or not isinstance(cs.get("Callouts"), list):
        return
    for j, (got, c) in enumerate(zip(cs["Callouts"], sec.m["callouts"])):
        if c.fru is None or not c.fru["flags"] & pm.FRU_PROC:
            continue
        want = proc_desc(sec.m["creator"], c.fru["pn"], allow_plugins)
        ctx.count("src.procedure_callouts")
        if want is None:
            if "Description" in got:
                problems.append(("Procedure Description", "%s callout %d: unexpected Description %r for %r" %
                                 (where, j, got["Description"], c.fru["pn"])))
        else:
            ctx.count("src.procedure_descs_expected")
            if got.get("Description") != want:
                problems.append(("Procedure Description", "%s callout %d: procedure %r described as %r, expected %r" %
                                 (where, j, c.fru["pn"], got.get("Description"), want)))


FOCUS_KINDS = {"C02": ("PH", "UH", "EH", "MT", "LP"), "C03": ("SRC",), "C04": ("UD", "ED", "GEN")}


def run_case(pel, ctx, focus, allow_plugins=True, reg=(), tag="", outcome=None):
    """Decode one well-formed PEL and apply the monitors of property `focus`.  `outcome`: the document was produced by
    a peltool command line (run_cli_modes) instead of a direct parsePEL call."""
    data = pel.encode()
    cfg = harness.make_config(every_pel=True, allow_plugins=allow_plugins)
    secs = pel.all_sections()
    labels = [kind_label(s) for s in secs]
    ctx.current = {"pel_hex": data if len(data) < 3000 else data[:3000], "len": len(data), "sections": labels,
                   "notes": [s.note for s in secs if s.note], "allow_plugins": allow_plugins, "creator": pel.creator,
                   "command_line": tag if outcome is not None else None}
    if focus == "C01":
        harness.READLOG.start()
        HEADERLOG.positions = []
    fxlog.reset()
    embed = None
    if outcome is None and focus != "C01" and len(data) % 7 == 3:
        # the PEL inside a larger stream (a container / the previous PEL before it, something else after it) with the
        # cursor on its first byte: parsePEL decodes from the cursor, not from offset 0
        prev = run_case.previous or b"\x00container\xff"
        embed = (prev[-(1 + len(data) % 97):], b"next" + data[:8])
        ctx.count("embedded-in-larger-stream")
    run_case.previous = data
    o = outcome if outcome is not None else harness.decode(data, cfg, embed=embed)
    if embed and o.final_index is not None and o.kind == "doc" and o.final_index != len(data):
        ctx.violation("%s/embedded-cursor-end" % focus, "PEL of %d bytes decoded from inside a larger stream: the cursor ended "
                      "%d bytes after its start" % (len(data), o.final_index), data=data)
    events = harness.READLOG.stop() if focus == "C01" else None
    nontrivial = len(pel.sections) >= 1
    ctx.case(data, nontrivial, sample={"sections": labels, "len": len(data), "head_hex": data[:64].hex()})
    if pm.CompNames.lenient and isinstance(o.exc, ValueError) and o.kind == "error":
        # a damaged component-id name file (environment fault, outside every property's quantifier): the tool may fail
        # on the PEL that first needs the file; what it does display is still checked
        ctx.count("damaged-name-file.decode-failed")
        return None
    if o.kind != "doc" or o.doc is None:
        ctx.violation("%s/wellformed-pel-not-decoded/%s" % (focus, type(o.exc).__name__ if o.exc is not None else o.kind),
                      "well-formed PEL (%s) was not decoded: %s %r stderr=%r" %
                      (",".join(labels), o.kind, o.exc, o.err[-300:]), data=data)
        return None
    if o.out:
        ctx.violation("%s/decoder-wrote-to-stdout" % focus, "decode printed %r on stdout" % o.out[:200], data=data)
    names = [k for k, _ in o.pairs]
    want_names = pel.names()
    if focus == "C01":
        for a, b in zip(labels, labels[1:]):
            ctx.see("adjacent", a + ">" + b)
        ctx.see("nsections", len(secs))
        ctx.see("creator", pel.creator)
        if names != want_names:
            k = 0
            while k < min(len(names), len(want_names)) and names[k] == want_names[k]:
                k += 1
            ctx.violation("C01/top-level-entries",
                          "entries differ from the log's sections at position %d: shown %r, log has %r (counts %d/%d)" %
                          (k, names[k:k + 3], want_names[k:k + 3], len(names), len(want_names)), data=data)
            return o
        ctx.count("names.checked")
        if len(set(names)) != len(names):
            ctx.violation("C01/duplicate-entry", "duplicate top-level keys %r" % names, data=data)
        check_cursor(events, pel, data, ctx, tag, o.final_index)
        if HEADERLOG.attached and HEADERLOG.positions:
            # auxiliary (an internal helper's call positions): sharpens witnesses, never decides on its own
            offs = [off for off, _ in pel.offsets()]
            if HEADERLOG.positions != offs:
                ctx.count("headerlog.differs")
                ctx.note("parseHeader called at %s, sections start at %s" % (HEADERLOG.positions[:12], offs[:12]))
            ctx.count("headerlog.checked")
        for (name, _), sec in zip(o.pairs, secs):
            probs = []
            pm.check_ident(o.doc[name], sec, probs, name)
            ctx.count("ident.checked")
            for key, msg in probs:
                ctx.violation("C01/section-content/%s" % kind_label(sec) if kind_label(sec) in ("UNK",) else
                              "C01/section-content/%s" % sec.kind,
                              "entry %r does not carry its own section's content: %s (sections %s)" %
                              (name, msg, ",".join(labels)), data=data)
        return o
    if names != want_names:
        # framing is C01's business; without it the per-entry comparison has no meaning
        ctx.count("skipped.framing-differs")
        ctx.violation("%s/entries-not-aligned-with-sections" % focus,
                      "cannot compare fields: top-level entries %r differ from sections %r" % (names[:8], want_names[:8]),
                      data=data)
        return o
    kinds = FOCUS_KINDS[focus]
    for (name, _), sec in zip(o.pairs, secs):
        if sec.kind not in kinds:
            continue
        entry = o.doc[name]
        probs = []
        pm.check_entry(entry, sec, probs, name)
        ctx.count("%s.entries" % sec.kind)
        for key, mode, _v in sec.expect:
            ctx.count("field.%s.%s" % (sec.kind, key if sec.kind != "SRC" or not key.startswith("Hex Word") else "Hex Word"))
        if sec.kind == "SRC":
            ctx.see("src.type", sec.m["type"])
            ctx.see("src.wordcount", sec.m["wc"])
            ctx.see("src.ncallouts", len(sec.m["callouts"]))
            for c in sec.m["callouts"]:
                ctx.count("src.callouts")
                ctx.see("callout.shape", "%s%s%s/%X" % ("F" if c.fru else "-", "P" if c.pce else "-",
                                                        "M" if c.mru else "-", (c.fru["flags"] & 0xF) if c.fru else 0))
            if check_error_details(entry, sec, reg, probs, name):
                ctx.count("src.error_details")
            check_proc_descs(entry, sec, allow_plugins, probs, name, ctx)
        if sec.kind == "LP":
            ctx.see("lp.targets", min(len(sec.m["targets"]), 300))
        if sec.kind in ("UD", "ED", "GEN"):
            fl = sec.m.get("flavor", "generic") if sec.kind != "GEN" else ("hexonly" if sec.name != "Unknown" else "unknown-id")
            ctx.count("ud.flavor.%s.%s" % (fl, "plugins" if allow_plugins else "noplugins"))
            ctx.see("payload.len", len(sec.payload))
        for key, msg in probs:
            ctx.violation("%s/%s/%s" % (focus, sec.kind, key), msg + " [sections %s%s]" %
                          (",".join(labels), "" if allow_plugins else ", plugins disabled"), data=data)
    return o


run_case.previous = None


def setup(spec):
    if spec.get("bmc"):
        harness.bmc_layout(spec["bmc"])
    r = harness.repo(plugins=spec.get("fixtures", True))
    if spec.get("focus") == "C01":
        harness.READLOG.install()
        HEADERLOG.attach()
    return r


def run_cli_modes(spec, ctx, focus, rng, u, reg, kinds, creators="OOOBMX"):
    """The full-display modes of the tool (-f, -i, --bmc-id, -j) reached through main(), alone and with options on the same
    command line that do not apply to the chosen mode (lower-precedence mode options, --clean / --output-dir for the
    display modes, either spelling): the document shown for the PEL is checked exactly like a direct decode."""
    import json
    import os
    import shutil
    from vf import cliparse, dirs
    root = harness.scratch_root()
    for i in range(spec["n"]):
        d = os.path.join(root, "cm%d" % i)
        out = os.path.join(root, "cm%d-out" % i)
        for x in (d, out):
            shutil.rmtree(x, ignore_errors=True)
            os.makedirs(x)
        creator = rng.choice(creators)
        plugins = rng.random() < 0.8
        pel = gen.gen_pel(rng, u, creator=creator, reg=reg, kinds=kinds, nopt=rng.choice([1, 2, 3, 4]), primary=True,
                          plugins_enabled=plugins)
        other = gen.gen_pel(rng, u, creator=creator, reg=reg, kinds=kinds, nopt=1, primary=True)
        if len({pel.eid, other.eid}) < 2 or len({pel.bmcid, other.bmcid}) < 2:
            continue
        names = ["%s_%08X" % (t, p.eid) for t, p in (("2025010112000000", pel), ("2025010112000001", other))]
        for nm, p in zip(names, (pel, other)):
            with open(os.path.join(d, nm), "wb") as f:
                f.write(p.encode())
        excl = os.path.join(root, "cm-excl.txt")
        with open(excl, "w") as f:
            f.write("ZZZZZZZZ\n")
        src = pel.primary_src().m["refcode"][:4] if pel.primary_src() else "BD"
        for mode in ("-f", "-i", "--bmc-id", "-j"):
            for with_soup in (False, True, True):
                base = {"-f": ["-f", os.path.join(d, names[0])], "-i": ["-p", d, "-i", "%08X" % pel.eid],
                        "--bmc-id": ["-p", d, "--bmc-id", str(pel.bmcid)], "-j": ["-p", d, "-j", "-o", out]}[mode]
                soup = cliparse.dominated_options(rng, mode, eid=other.eid, plid=other.plid, src=src, excl=excl,
                                                  outdir=out, allow_clean=False) if with_soup else []
                soup = [x for x in soup if x not in ("-c", "--clean")] + ["-E"] + ([] if plugins else ["-P"])
                argv = base + soup
                for fn in os.listdir(out):
                    os.unlink(os.path.join(out, fn))
                rc, so, se, tb = harness.cli(argv)
                ctx.count("cli.mode_runs")
                if with_soup:
                    ctx.count("cli.mode_runs_with_dominated_options")
                text = so
                if mode == "-j":
                    fn = [f for f in os.listdir(out) if dirs.is_json_name(f, names[0], pel.eid)]
                    text = open(os.path.join(out, fn[0])).read() if fn else ""
                o = harness.Outcome()
                o.err = se
                try:
                    o.doc = json.loads(text)
                    o.pairs = json.loads(text, object_pairs_hook=list)
                    o.text = text
                except ValueError as e:
                    o.exc = e
                if tb:
                    o.exc = RuntimeError(tb[-300:])
                    o.doc = None
                label = " ".join(a if not a.startswith(root) else "<%s>" % os.path.basename(a) for a in argv)
                run_case(pel, ctx, focus, allow_plugins=plugins, reg=reg, tag="peltool " + label, outcome=o)
        shutil.rmtree(d, ignore_errors=True)
        shutil.rmtree(out, ignore_errors=True)
