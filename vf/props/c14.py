"""C14 - ILOG decoding reports every entry with the first matching table message."""
import os
import random

from vf import harness, iogen
from vf import iomodels as im

ID = "C14"
LEVEL = "exploration"
RULE = ("synthetic PTE tables written by the harness (0..40 entries, overlapping wildcard patterns, wildcards at every "
        "position, lower-case patterns, escaped quotes, padded messages, parameter lists with 0/5/9, arity and type "
        "mismatches, %c, %%) x ILOG data aimed at the patterns (with/without reported bit and error class, one-bit near "
        "misses), boundary timestamps, all-zero entries, trailing partial entries; plus both shipped tables read by an "
        "independent line scanner whose entry count is cross-checked with the header's PTE_TABLE_SIZE.  Wrappers rebound "
        "over every alias of parse_ilog_data and over PTETable.get_entry compare each call with the model ilog_ref.  "
        "Non-trivial: data holds >= 1 non-zero entry; distinct = (table, data).")
ASSUMPTIONS = ["synthetic patterns use only hex digits and '*' (other characters are outside the table grammar)",
               "parameter numbers are single digits (the byte numbers of a 4-byte PTE)",
               "Python's % operator is the formatting semantics (message shown raw when formatting fails)"]
TABLES = {}          # header path -> model table (set by the workload before the call)


def install(ctx):
    harness.import_all_repo_modules()
    import io_drawer.ilog as ilog
    orig = ilog.parse_ilog_data

    def parse_ilog_data(data, header_file_path):
        res = orig(data, header_file_path)
        table = TABLES.get(iogen.pkey(header_file_path))
        if table is None:
            ctx.counters["ilog.unknown_table"] += 1
            return res
        ctx.counters["ilog.calls_checked"] += 1
        want = im.ilog_ref(bytes(data), table)
        if list(res) != want:
            k = 0
            while k < min(len(res), len(want)) and res[k] == want[k]:
                k += 1
            kind = "entry-count" if len(res) != len(want) else classify(res[k], want[k])
            ctx.violation("C14/" + kind, "parse_ilog_data line %d: shown %r, the model says %r (%d vs %d lines)" %
                          (k, res[k] if k < len(res) else None, want[k] if k < len(want) else None, len(res), len(want)),
                          data=bytes(data)[:400], table=[list(t) for t in table][:50])
        ctx.counters["ilog.entries_checked"] += max(0, len(want) - 2)
        return res
    n = harness.rebind_everywhere(orig, parse_ilog_data)
    ctx.counters["ilog.rebound_sites"] = n
    orig_get = ilog.PTETable.get_entry

    def get_entry(self, pte):
        e = orig_get(self, pte)
        table = TABLES.get(iogen.pkey(self.header_file_path))
        if table is not None:
            ctx.counters["get_entry.checked"] += 1
            if len(self.entries) != len(table):
                ctx.violation("C14/table-size", "PTE table read as %d entries, the header file defines %d" %
                              (len(self.entries), len(table)))
            else:
                reported = (pte >> 28) == 0xE and bool(pte & 0x00040000)
                idx = None
                for i, (pat, _m, _p) in enumerate(table):
                    if im.pat_match(pat, pte) or (reported and im.pat_match(pat, pte & ~0x00040000 & 0xFFFFFFFF)):
                        idx = i
                        break
                got = None if e is None else next((i for i, x in enumerate(self.entries) if x is e), -1)
                if got != idx:
                    ctx.violation("C14/first-match", "PTE %08X: table entry #%r returned, the first matching entry is #%r (%s)" %
                                  (pte, got, idx, table[idx][0] if idx is not None else "none"))
        return e
    ilog.PTETable.get_entry = get_entry


def classify(got, want):
    if got is None or want is None:
        return "entry-count"
    g, w = got.split(" ", 3), want.split(" ", 3)
    if len(g) < 4 or len(w) < 4:
        # hh:mm:ss may start with a blank
        return "line-format"
    if got[:8] != want[:8]:
        return "timestamp"
    if got[9:13] != want[9:13]:
        return "sequence"
    if got[14:22] != want[14:22]:
        return "pte"
    if got.endswith(" - PEL entry created") != want.endswith(" - PEL entry created"):
        return "reported-suffix"
    return "description"


def plan(tier, seed):
    n = 150 if tier == "quick" else 6000
    specs = [{"mode": "synthetic", "n": n, "rseed": seed * 1000 + i, "optimize": i % 4 == 3} for i in range(14)]
    specs += [{"mode": "shipped", "which": w, "n": 60 if tier == "quick" else 3000, "rseed": seed * 1000 + 100 + k}
              for k, w in enumerate(["mex", "nimitz"])]
    specs[-1]["optimize"] = True          # python -O: assert statements are compiled away
    specs.append({"mode": "peltool", "n": 14 if tier == "quick" else 250, "rseed": seed * 1000 + 400})
    specs.append({"mode": "layout", "n": 25 if tier == "quick" else 300, "rseed": seed * 1000 + 200})
    specs.append({"mode": "script", "n": 16 if tier == "quick" else 300, "rseed": seed * 1000 + 300})
    return specs


def minimums(tier):
    return {"ilog.calls_checked": 2000, "ilog.entries_checked": 20000, "get_entry.checked": 20000, "shipped.entries_checked": 1200,
            "workload.reported_error_ptes": 1500, "workload.partial_trailing": 300, "peltool.io_section_runs": 30, "peltool.io_sections_compared": 30, "layout.compared": 40,
            "layout.decoded_in_plain_tree": 40, "script.runs_with_own_tables": 12}


def run(spec, ctx):
    harness.repo()
    install(ctx)
    import io_drawer.ilog as ilog
    rng = random.Random(spec["rseed"])
    root = harness.scratch_root()
    if spec["mode"] == "peltool":
        # the section inside a PEL, decoded by peltool in a process of its own (see vf/iocli.py)
        from vf import iocli
        from vf import pelmodel as pm
        iocli.run(ctx, ID, rng, pm.Uniq(spec["shard"] * 10_000_000), 73, spec["n"])
        return
    if spec["mode"] == "synthetic":
        for i in range(spec["n"]):
            table = iogen.gen_table(rng)
            path = os.path.join(root, "pte_%d.h" % (i % 3))      # paths are reused: the file is rewritten with another table
            im.write_pte_table(path, table, rng, style=rng.randrange(4) | (16 if rng.random() < 0.3 else 0) | (128 if rng.random() < 0.3 else 0))
            TABLES[os.path.abspath(path)] = iogen.model_table(table)
            for _ in range(12):
                data = iogen.gen_ilog(rng, table)
                note(ctx, data)
                ctx.current = {"table": [list(t) for t in table][:40], "data": data[:400]}
                ctx.case(repr(table) + data.hex(), any(data[k:k + 8] != b"\0" * 8 for k in range(0, len(data) - 7, 8)),
                         sample={"table": [list(t) for t in table][:3], "data_hex": data[:32].hex()} if i == 0 else None)
                try:
                    ilog.parse_ilog_data(iogen.view_of(rng, data), iogen.path_of(rng, path))
                except Exception as e:
                    ctx.violation("C14/decoder-raised/" + type(e).__name__, "parse_ilog_data raised %r" % (e,), data=data[:400],
                                  table=[list(t) for t in table][:50])
        return
    if spec["mode"] == "script":
        # the stand-alone formatter given the PTE table with -d (absolute / relative / named like a shipped table)
        from vf.props import c17
        c17.script_with_tables(ctx, "C14", rng, root, spec["n"], ilog_only=True)
        return
    if spec["mode"] == "layout":
        # the shipped tables are found next to the modules: same result however the package is laid out on disk
        from vf import layout
        from io_drawer.drawer_type import DRAWER_TYPES
        cases = []
        for dt in DRAWER_TYPES:
            table, _ = im.parse_shipped_pte_table(dt.get_header_file_path())
            for _ in range(spec["n"]):
                cases.append((73, dt.user_data_version, iogen.gen_ilog(rng, table, rng.randrange(1, 40))))
        layout.compare(ctx, "C14", cases, "ILOG data")
        return
    from io_drawer.drawer_type import MEX_DRAWER_TYPE, NIMITZ_DRAWER_TYPE
    dt = MEX_DRAWER_TYPE if spec["which"] == "mex" else NIMITZ_DRAWER_TYPE
    path = dt.get_header_file_path()
    table, declared = im.parse_shipped_pte_table(path)
    ctx.see("shipped.table_size", "%s:%d/%s" % (spec["which"], len(table), declared))
    # PTE_TABLE_SIZE counts the terminating { "", "The End" } element
    if declared is None or len(table) != declared - 1:
        ctx.violation("C14/harness-shipped-table", "independent scanner found %d entries in %s, header declares %s" %
                      (len(table), path, declared))
        return
    TABLES[os.path.abspath(path)] = table
    for i in range(spec["n"]):
        data = iogen.gen_ilog(rng, table, rng.randrange(1, 40))
        note(ctx, data)
        ctx.current = {"table": spec["which"], "data": data[:400]}
        ctx.case(spec["which"] + data.hex(), True)
        try:
            res = ilog.parse_ilog_data(memoryview(data), path)
        except Exception as e:
            ctx.violation("C14/decoder-raised/" + type(e).__name__, "parse_ilog_data raised %r" % (e,), data=data[:400])
            continue
        ctx.counters["shipped.entries_checked"] += len(res) - 2


def note(ctx, data):
    for k in range(0, len(data) - 7, 8):
        pte = int.from_bytes(data[k + 4:k + 8], "big")
        if (pte >> 28) == 0xE and pte & 0x00040000:
            ctx.counters["workload.reported_error_ptes"] += 1
    if len(data) % 8:
        ctx.counters["workload.partial_trailing"] += 1
