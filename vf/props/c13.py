"""C13 - hex dumps are lossless: parsing a dump returns the original bytes."""
import math
import os
import random
import re

from vf import cliparse, dirs, harness, iomodels
from vf import pelmodel as pm

ID = "C13"
LEVEL = "exploration"
RULE = ("byte strings of every length 0..600 and sampled up to 70000 over byte classes (random, boundaries 0x1F/0x20/0x7E/0x7F/"
        "0xFF, all printable, all non-printable) x layouts (quick: all 1..20 x 1..20 plus 256 edge layouts; thorough: all "
        "256 x 256).  A wrapper rebound over EVERY alias of pel.hexdump.hexdump (peltool, default, user_data, ext_user_data, "
        "parse_user_data, trace, hlog, m2c00, oe500) checks each call: one line per started line, equal widths, offset prefix, "
        "the chunk's hex digits in order, no control characters, and for the default layout parse(hexdump(d)) == d with the "
        "repository's parse and with an independent parser.  parse() is also driven with independent renderings of both "
        "I/O-drawer formats (aligned and stripped short last lines of every length 1..15, lower case, comment/blank lines, "
        "free text starting with one hex digit, near-miss lines: damaged address digit / separator / one-digit first byte).  "
        "peltool -x output is parsed back to the files' bytes.  Non-trivial: len >= 1; distinct = (bytes, layout).")
ASSUMPTIONS = ["comment lines never begin with a complete byte of a dump line (two hex digits at the first data position); a lone "
               "hex digit next to a blank, sign or tab there is no byte and the line contributes nothing",
               "BMC-format dumps beyond 64 KiB are rendered with the 4-digit address wrapping around",
               "the text column's content is not constrained beyond being free of control characters"]

CTRL = re.compile(r"[\x00-\x1f]")


def install(ctx):
    harness.import_all_repo_modules()
    hx = harness.repo()["hx"]
    orig = hx.hexdump
    real_parse = hx.parse

    def hexdump(data, bytes_per_line=16, bytes_per_chunk=4):
        res = orig(data, bytes_per_line, bytes_per_chunk)
        check_dump(ctx, bytes(data), bytes_per_line, bytes_per_chunk, res, real_parse)
        return res
    n = harness.rebind_everywhere(orig, hexdump)
    ctx.counters["hexdump.rebound_sites"] = n
    return hexdump


def check_dump(ctx, d, bpl, bpc, res, real_parse):
    ctx.counters["hexdump.calls"] += 1
    where = "hexdump(%d bytes, %d, %d)" % (len(d), bpl, bpc)
    if not isinstance(res, list) or any(not isinstance(x, str) for x in res):
        ctx.violation("C13/not-a-list-of-lines", where + " returned %r" % type(res), data=d[:200])
        return
    want = math.ceil(len(d) / bpl)
    if len(res) != want:
        ctx.violation("C13/line-count", "%s has %d lines, %d lines of data were started" % (where, len(res), want), data=d[:200])
        return
    widths = {len(x) for x in res}
    if len(widths) > 1:
        ctx.violation("C13/unequal-line-widths", "%s: line widths %s" % (where, sorted(widths)), data=d[:200])
    for i, ln in enumerate(res):
        chunk = d[i * bpl:(i + 1) * bpl]
        try:
            off = int(ln[:8], 16)
        except ValueError:
            off = None
        if off != i * bpl:
            ctx.violation("C13/offset-prefix", "%s: line %d starts with %r, its offset is %08X" % (where, i, ln[:10], i * bpl), data=d[:200])
            break
        digits = ln[8:].replace(" ", "")
        if not digits.upper().startswith(chunk.hex().upper()):
            ctx.violation("C13/hex-digits", "%s: line %d %r does not show bytes %s" % (where, i, ln, chunk.hex()), data=d[:200])
            break
        if CTRL.search(ln):
            ctx.violation("C13/control-character-in-line", "%s: line %d contains a control character: %r" % (where, i, ln), data=d[:200])
            break
    if bpl == 16 and bpc == 4:
        ctx.counters["hexdump.default_layout_roundtrips"] += 1
        try:
            back = bytes(real_parse(res))
        except Exception as e:
            back = repr(e)
        if back != d:
            ctx.violation("C13/roundtrip", "parse(hexdump(d)) != d for %d bytes (got %s)" %
                          (len(d), back[:40].hex() if isinstance(back, bytes) else back), data=d[:400])
        try:
            ind = pm.parse_dump(res)
        except ValueError as e:
            ind = repr(e)
        if ind != d:
            ctx.violation("C13/default-format", "the dump of %d bytes does not follow the documented default line format (%s)" %
                          (len(d), ind if isinstance(ind, str) else "bytes differ"), data=d[:400])


def gen_bytes(rng, n):
    r = rng.random()
    if r < 0.3:
        return bytes(rng.randrange(256) for _ in range(n))
    if r < 0.5:
        return bytes(rng.choice([0x1F, 0x20, 0x7E, 0x7F, 0xFF, 0x00, 0x0A, 0x0D, 0x22, 0x5C]) for _ in range(n))
    if r < 0.65:
        return bytes(rng.randrange(0x20, 0x7F) for _ in range(n))
    if r < 0.8:
        return bytes(rng.choice(list(range(0, 0x20)) + list(range(0x7F, 0x100))) for _ in range(n))
    return bytes((i * 37 + 11) & 0xFF for i in range(n))


def plan(tier, seed):
    specs = []
    for i in range(6):
        specs.append({"mode": "default", "rseed": seed * 1000 + i, "lens": list(range(i, 601, 6)),
                      "big": 3 if tier == "quick" else 40, "optimize": i == 5})
    if tier == "quick":
        lay = [(a, b) for a in range(1, 21) for b in range(1, 21)] + \
              [(a, b) for a in (1, 2, 255, 256, 128, 17, 64, 100) for b in (1, 2, 3, 4, 255, 256, 16, 7)] + \
              [(256, b) for b in range(1, 257, 9)] + [(a, 256) for a in range(1, 257, 9)]
    else:
        lay = [(a, b) for a in range(1, 257) for b in range(1, 257)]
    k = 5
    for i in range(k):
        specs.append({"mode": "layouts", "rseed": seed * 1000 + 100 + i, "layouts": lay[i::k]})
    for i in range(3):
        specs.append({"mode": "formats", "rseed": seed * 1000 + 200 + i, "n": 9000 if tier == "quick" else 120000})
    for i in range(2):
        specs.append({"mode": "cli", "rseed": seed * 1000 + 300 + i, "n": 60 if tier == "quick" else 1500})
    return specs


def minimums(tier):
    return {"hexdump.calls": 5000, "hexdump.default_layout_roundtrips": 2000, "parse.format_checks": 6000,
            "parse.short_last_line": 1500, "parse.with_comments": 800, "cli.hex_checked": 40, "layouts.checked": 400, "parse.beyond_64k": 20,
            "parse.dump_file_checks": 500, "parse.lines_as_generator": 500, "parse.lines_as_file": 300, "parse.lines_as_tuple": 500, "parse.dump_file_hexlike_heading": 60, "parse.old_format_trimmed_lines": 300, "parse.near_miss_lines": 300, "parse.near_miss_first_byte": 300, "parse.markup_like_text": 200}


def finish(m, tier):
    return {"layouts_seen": len(m["sets"].get("layout", ())), "hexdump_alias_sites_rebound": m["counters"].get("hexdump.rebound_sites", 0)}


def run(spec, ctx):
    r = harness.repo()
    install(ctx)
    hx = r["hx"]
    rng = random.Random(spec["rseed"])
    if spec["mode"] == "default":
        for n in spec["lens"] + [rng.choice([1000, 4096, 5000, 65527, 70000]) for _ in range(spec["big"])]:
            for _ in range(2 if n <= 600 else 1):
                d = gen_bytes(rng, n)
                ctx.current = {"len": n, "head": d[:64]}
                ctx.case(d, n >= 1, sample={"len": n, "head_hex": d[:16].hex()} if n in (17, 33) else None)
                from vf import iogen
                hx.hexdump(iogen.view_of(rng, d))
        for b in range(256):
            d = bytes([b]) * rng.choice([1, 16, 17])
            ctx.case(d, True)
            hx.hexdump(d)
        return
    if spec["mode"] == "layouts":
        # the dump of given bytes depends on the bytes and the setting only, not on which settings were used before in
        # the process: a neighbour of the default layout (same line width, other chunk size) goes first, the default
        # layout - the one with a parse-back oracle - is called again after every other layout, and the order is drawn
        lays = list(spec["layouts"])
        rng.shuffle(lays)
        first = (16, rng.choice([5, 5, 5, 3, 6, 8, 16, 255]))
        for bpl, bpc in [first] + lays:
            ctx.see("layout", "%dx%d" % (bpl, bpc))
            ctx.count("layouts.checked")
            for n in {0, 1, bpl - 1, bpl, bpl + 1, 2 * bpl + max(1, bpc - 1), rng.randrange(0, 4 * bpl + 2)}:
                if n < 0:
                    continue
                d = gen_bytes(rng, n)
                ctx.current = {"len": n, "layout": [bpl, bpc]}
                ctx.case(d + bytes([bpl & 255, bpc & 255]), n >= 1)
                hx.hexdump(d, bpl, bpc)
            dd = gen_bytes(rng, rng.choice([1, 15, 16, 17, 40, 64]))
            ctx.count("layouts.default_after_other")
            hx.hexdump(dd) if rng.random() < 0.5 else hx.hexdump(dd, 16, 4)
        return
    if spec["mode"] == "formats":
        from io_drawer.dump import HEX_DUMP_LINE_FORMATS
        fm = {"bmc": (iomodels.render_bmc, HEX_DUMP_LINE_FORMATS[0]), "old": (iomodels.render_old, HEX_DUMP_LINE_FORMATS[1])}
        comments = ["", "   ", "# comment", "IO drawer dump", "----", "Z0 00", "<html>", "\t", "xx yy", "offset  data",
                    "# a remark that is wider than any line of a dump: " + "-" * 40, "note " * 30, "=" * 75, "x" * 63, "y" * 64,
                    # free text whose first characters are ONE hex digit next to a blank, sign, tab or bracket: not a byte
                    " end of section", "A dump of drawer 1", "b) second part", "+5 V rail", " c", "d ", "e: x", "0 errors",
                    "f", "\td0 stage", "-1", " collected through the web interface", "a", "F  ", "1) first", "+a"]
        for i in range(spec["n"]):
            name = rng.choice(["bmc", "old", "default"])
            n = rng.choice([0, 1, 15, 16, 17, 31, 32, 33]) if rng.random() < 0.3 else rng.randrange(0, 300)
            if rng.random() < 0.2:
                n = 16 * rng.randrange(0, 8) + rng.randrange(1, 16)        # short last line of every length
            if i % 400 == 7:
                # dumps beyond 64 KiB: the 4-digit address column of the BMC format wraps around, the data must not be lost
                n = rng.choice([65535, 65536, 65537, 65552, 70000, 131072 + 5])
                ctx.count("parse.beyond_64k")
            d = gen_bytes(rng, n)
            if n >= 40 and i % 9 == 4:
                # memory that holds text which looks like markup: it shows up in the character column, it is still a dump
                a, b = sorted(rng.sample(range(0, n - 8), 2))
                d = bytearray(d)
                d[a:a + 5] = rng.choice([b"<pre>", b"<PRE>", b"<pre "])
                d[b + 5 - 5 + 5:b + 5 + 6] = b"</pre>"
                if rng.random() < 0.5:
                    d[max(0, a - 16):max(0, a - 16) + 6] = b"<html>"
                d = bytes(d[:n])
                ctx.count("parse.markup_like_text")
            lower, strip = rng.random() < 0.3, rng.random() < 0.3
            if name == "default":
                lines = iomodels.ref_hexdump(d)
                fmt = hx.DEFAULT_LINE_FORMAT
                if lower:
                    lines = [ln[:8].lower() + ln[8:46].lower() + ln[46:] for ln in lines]
                if strip and lines and n % 16:
                    lines[-1] = lines[-1][:13 + len(lines[-1][13:51].rstrip())]
            elif name == "old" and rng.random() < 0.4:
                if rng.random() < 0.5 and n >= 16:
                    # rows that END in blanks (0x20 bytes): trimming them shortens the line below the other format's width
                    d = bytearray(d)
                    for off in range(0, n - 15, 16):
                        if rng.random() < 0.5:
                            k = rng.choice([1, 2, 3, 8])
                            d[off + 16 - k:off + 16] = b" " * k
                    d = bytes(d)
                lines = iomodels.render_old(d, lower=lower, strip=strip, trim=rng.choice(["rstrip", "notext"]))
                fmt = fm[name][1]
                ctx.count("parse.old_format_trimmed_lines")
            else:
                lines = fm[name][0](d, lower=lower, strip=strip)
                fmt = fm[name][1]
            with_comments = rng.random() < 0.35
            if with_comments:
                mixed = []
                for ln in lines:
                    if rng.random() < 0.3:
                        mixed.append(rng.choice(comments))
                    mixed.append(ln)
                mixed.append(rng.choice(comments))
                if name in ("default", "bmc") and lines and rng.random() < 0.5:
                    # near-misses of a data line: one address digit is no hex digit / the separator after the address is
                    # wrong - such a line does not match the format and contributes nothing
                    src_line = rng.choice(lines).rstrip("\n")
                    alen = 8 if name == "default" else 4
                    if len(src_line) > alen + 2:
                        k = rng.randrange(alen)
                        near = [src_line[:k] + rng.choice("GZ:x ") + src_line[k + 1:], src_line[:alen] + "#" + src_line[alen + 1:]]
                        mixed.insert(rng.randrange(len(mixed) + 1), rng.choice(near))
                        ctx.count("parse.near_miss_lines")
                if lines and rng.random() < 0.5:
                    # a data line whose FIRST byte is spelled with one digit and a blank / sign / tab: int(' c', 16) reads that,
                    # the format does not - no byte there, so nothing of the line counts
                    src_line = rng.choice(lines).rstrip("\n")
                    first = fmt.index("D")
                    if len(src_line) >= first + 2:
                        x = rng.choice("0123456789abcdefABCDEF")
                        pair = rng.choice([" " + x, x + " ", "+" + x, "-" + x, "\t" + x, x + "\t", "_" + x])
                        mixed.insert(rng.randrange(len(mixed) + 1), src_line[:first] + pair + src_line[first + 2:])
                        ctx.count("parse.near_miss_first_byte")
                lines = mixed
                ctx.count("parse.with_comments")
            if rng.random() < 0.5:
                lines = [ln + "\n" for ln in lines]
            if n % 16:
                ctx.count("parse.short_last_line")
            ctx.current = {"format": name, "len": n, "lines": lines[:6], "lower": lower, "stripped_last": strip}
            ctx.case(name + repr(lines), n >= 1, sample={"format": name, "lines": lines[:3]} if i < 2 else None)
            ctx.count("parse.format_checks")
            # parse() takes "lines": any iterable of strings - a list, a tuple, a generator, an open text file
            import io
            how = rng.choice(["list", "list", "tuple", "generator", "iterator", "file"])
            if how == "file" and not all(ln.endswith("\n") for ln in lines):
                how = "generator"
            arg = {"list": lambda: list(lines), "tuple": lambda: tuple(lines), "generator": lambda: (ln for ln in lines),
                   "iterator": lambda: iter(lines), "file": lambda: io.StringIO("".join(lines))}[how]()
            ctx.count("parse.lines_as_" + how)
            ctx.current["lines_passed_as"] = how
            try:
                back = bytes(hx.parse(arg, fmt))
            except Exception as e:
                back = repr(e)
            if name != "default" and n > 0 and i % 5 == 0:
                # the same rendering as a dump FILE (the entry point that has to find out the format by itself), with a
                # banner of comment / blank lines of any length in front
                import io_drawer.dump as dump
                captured = []
                orig_pdd = dump.parse_dump_data
                dump.parse_dump_data = lambda data, h, s_: captured.append(bytes(data)) or []
                path = os.path.join(harness.scratch_root(), "c13_dump.txt")
                pre = [rng.choice(comments) for _ in range(rng.choice([0, 1, 3, 15, 16, 17, 40]))]
                if name == "bmc" and rng.random() < 0.4:
                    # heading lines that begin like a line of the OTHER format (two hex digits and a blank): in a BMC-format
                    # file they are still headings
                    pre.insert(rng.randrange(len(pre) + 1), rng.choice(["02 Oct 2026 10:15:42  drawer dump", "00", "FF 12 data follows",
                                                                        "1A", "DE AD BE EF"]))
                    ctx.count("parse.dump_file_hexlike_heading")
                with open(path, "w") as f:
                    f.write("".join((ln if ln.endswith("\n") else ln + "\n") for ln in pre + list(lines)))
                try:
                    dump.parse_dump_file(path, "unused.h", "unused")
                except Exception as e:
                    captured = [repr(e).encode()]
                finally:
                    dump.parse_dump_data = orig_pdd
                ctx.count("parse.dump_file_checks")
                if captured != [d]:
                    ctx.violation("C13/dump-file/" + name, "a dump file of %d bytes in the %s format (%d leading comment/blank lines) gave "
                                  "back %s" % (n, name, len(pre), ("%d bytes" % len(captured[0])) if captured else "no data"), data=d[:300])
            if back != d:
                ctx.violation("C13/parse-format/" + name, "parse() of %d bytes rendered in the %s format (lines passed as a %s) returned %s" %
                              (n, name, how, ("%d bytes" % len(back)) if isinstance(back, bytes) else back), data=d[:300])
        return
    # peltool -x
    u = pm.Uniq(spec["shard"] * 10_000_000)
    root = harness.scratch_root()
    for i in range(spec["n"]):
        ents = dirs.gen_dir_model(rng, u, rng.randrange(1, 6))
        if i % 3 == 0:      # a file of several KiB (more than one read / write buffer)
            big = ents[0].pel
            for _ in range(rng.choice([1, 3, 15])):
                big.sections.append(pm.sec_generic(rng, u, b"EI", pm.gen_payload(rng, u, 4096)))
            ents[0].data = big.encode()
        d = dirs.PelDir(os.path.join(root, "d%d" % i))
        d.extend(ents)
        for argv, want in ((["-p", d.root, "-a", "-x", "-E"], [e.data for e in sorted(ents, key=lambda e: e.name)]),
                           (["-f", ents[0].path, "-x", "-E"], [ents[0].data]),
                           (["-p", d.root, "-l", "-x", "-E", "-r"], [e.data for e in sorted(ents, key=lambda e: e.name, reverse=True)]),
                           (["-p", d.root, "-l", "-x", "-E"], [e.data for e in sorted(ents, key=lambda e: e.name)]),
                           (["-p", d.root, "--plid", "%08X" % ents[0].pel.plid, "-x"],
                            [e.data for e in sorted(ents, key=lambda e: e.name) if e.pel.plid == ents[0].pel.plid]),
                           (["-p", d.root, "--src", "B", "-x"],
                            [e.data for e in sorted(ents, key=lambda e: e.name) if e.pel.primary_src() and "B" in e.pel.primary_src().m["refcode"]]),
                           (["-p", d.root, "--bmc-id", str(ents[0].pel.bmcid), "-x"], [ents[0].data])):
            ctx.current = {"argv": argv}
            ctx.case(repr(argv) + repr([e.name for e in ents]) + str(spec["rseed"]), True)
            rc, out, err, tb = harness.cli(argv)
            ctx.count("cli.hex_checked")
            try:
                got = cliparse.parse_hex(out)
            except cliparse.BadOutput as e:
                got = str(e)
            if tb or got != want:
                ctx.violation("C13/cli-hex", "peltool %s: dumps between the markers do not reproduce the files (%s)" %
                              (argv[2:], tb or (got if isinstance(got, str) else "bytes differ")))
        d.remove()
