"""C07 - PEL selection follows the documented class/severity/--only rules."""
import itertools
import json
import os
import random

from vf import dirs, harness
from vf import pelmodel as pm
from vf.refmodels import GROUP_DIGITS, Sel, select_ref

ID = "C07"
LEVEL = "exploration"
RULE = ("EXHAUSTIVE over 256 severity bytes x 8 combinations of the three relevant action-flag bits x 64 combinations of "
        "the six class/--only switches x 128 subsets of the seven severity groups (= 16,777,216 points, the 13 irrelevant "
        "flag bits varied per point) + --every-pel + look-ups without options: the real considerPEL is called with a real "
        "UserHeader/Config and a wrapper rebound over peltool.considerPEL compares every result with select_ref, a "
        "transcription of the statement.  The same wrapper stays armed during in-process CLI runs (-n/-l/-a/--plid/--src/"
        "--src-exclude/-i/--bmc-id) on directories spanning all classes, where the printed count is also compared with "
        "the reference count.  Non-trivial: --every-pel not set; enumerated points are distinct by construction.")
ASSUMPTIONS = ["look-ups combined with selection options are not constrained (the statement is silent)",
               "severity group digits are the published ones: 0,1,2,4,5,6,7"]
DIGITS = sorted(GROUP_DIGITS.values())
SUBSETS = [tuple(d for i, d in enumerate(DIGITS) if m >> i & 1) for m in range(128)]


def plan(tier, seed):
    specs = [{"mode": "enum", "subsets": list(range(i * 8, i * 8 + 8)), "rseed": seed * 1000 + i,
              "passes": 1 if tier == "quick" else 4} for i in range(16)]
    n = 45 if tier == "quick" else 1500
    specs += [{"mode": "cli", "n": n, "rseed": seed * 1000 + 100 + i} for i in range(4)]
    return specs


def minimums(tier, counters=None):
    if counters and counters.get("unattached.considerPEL"):
        return {"cli.count_checked": 400, "cli.zero_id_lookups": 50, "cli.lookup_results_checked": 200,
                "cli.lookup_hidden_or_nonserviceable_expected": 500}
    return {"considerPEL.checked": 16_000_000, "considerPEL.lookup_checked": 2000, "cli.count_checked": 400,
            "considerPEL.checked_in_cli": 3000, "cli.lookup_results_checked": 200,
            "cli.lookup_hidden_or_nonserviceable_expected": 500}


def finish(m, tier):
    return {"exhaustive": m["counters"].get("enum.points", 0) >= 16_777_216 and not m["failed"],
            "enumerated_points": m["counters"].get("enum.points", 0)}


IN_CLI = [False]


def sel_of(config):
    lookup = bool(config.plid or config.src or config.bmcID or config.pelID or config.srcExcludeFile)
    return Sel(every=bool(config.every_pel), s=bool(config.serviceable), N=bool(config.non_serviceable),
               H=bool(config.hidden), t=bool(config.critSysTerm), only=bool(config.only),
               groups=tuple(config.severities), lookup=lookup)


def install(ctx):
    pt = harness.repo()["pt"]
    if not hasattr(pt, "considerPEL"):
        ctx.count("unattached.considerPEL")       # internal helper renamed: the CLI-level count oracle decides
        return None
    orig = pt.considerPEL

    def considerPEL(uh, config):
        before = (dict(vars(config)), list(config.severities), uh.eventSeverity, uh.actionFlags)
        o_before = sel_of(config)
        res = orig(uh, config)
        after = (dict(vars(config)), list(config.severities), uh.eventSeverity, uh.actionFlags)
        if before != after:
            ctx.violation("C07/selection-changed-its-inputs", "considerPEL modified the options / header it was given: %r -> %r" %
                          (o_before, sel_of(config)))
        o = o_before
        want = select_ref(uh.eventSeverity, uh.actionFlags, o)
        if want is None:
            ctx.counters["considerPEL.unconstrained"] += 1
            return res
        ctx.counters["considerPEL.checked"] += 1
        if o.lookup:
            ctx.counters["considerPEL.lookup_checked"] += 1
        if IN_CLI[0]:
            ctx.counters["considerPEL.checked_in_cli"] += 1
        if bool(res) != want:
            kind = "lookup" if o.lookup else ("only" if o.only else ("every" if o.every else "additive"))
            ctx.violation("C07/considerPEL-disagrees/" + kind,
                          "severity %#04x action flags %#06x options %r: selected=%r, the rules say %r" %
                          (uh.eventSeverity, uh.actionFlags, o, bool(res), want),
                          sev=uh.eventSeverity, flags=uh.actionFlags, options=repr(o))
        return res
    pt.considerPEL = considerPEL
    return considerPEL


def lookup_result(ctx, d, argv, want, what, ents):
    from vf import cliparse
    from vf.refmodels import is_hidden, is_serviceable
    ctx.current = {"argv": argv}
    rc, out, err, tb = harness.cli(["-p", d.root] + argv)
    ctx.count("cli.lookup_results_checked")
    try:
        got = sorted(eid for eid, _ in cliparse.parse_list(out))
    except cliparse.BadOutput:
        got = None
    special = [e for e in ents if e.pel.eid in want and (is_hidden(e.pel.flags) or not is_serviceable(e.pel.sev, e.pel.flags))]
    ctx.counters["cli.lookup_hidden_or_nonserviceable_expected"] += len(special)
    if tb or got != want:
        missing = [w for w in want if got is None or w not in got]
        ctx.violation("C07/lookup-result/" + what.split("(")[0],
                      "look-up %s (%s) listed %s; %d PELs match, hidden and non-serviceable ones included; missing %s (rc=%s %s)" %
                      (" ".join(argv[:1]), what, None if got is None else [hex(g) for g in got][:6], len(want),
                       [hex(m) for m in missing][:6], rc, (tb or "")[-200:]))


def run(spec, ctx):
    r = harness.repo()
    pt = r["pt"]
    attached = install(ctx) is not None
    rng = random.Random(spec["rseed"])
    from pel.peltool.user_header import UserHeader
    if spec["mode"] == "enum":
        if not attached:
            ctx.bulk(2, 2)
            return
        uh = UserHeader(None, 0x5548, 24, 1, 0, 0, "O")
        relevant = [0x8000, 0x4000, 0x2000]
        flagsets = [sum(b for i, b in enumerate(relevant) if m >> i & 1) for m in range(8)]
        for _pass in range(spec["passes"]):
            for si in spec["subsets"]:
                groups = list(SUBSETS[si])
                for sw in range(64):
                    cfg = r["Config"]()
                    cfg.serviceable, cfg.non_serviceable, cfg.hidden = bool(sw & 1), bool(sw & 2), bool(sw & 4)
                    cfg.critSysTerm, cfg.only, cfg.every_pel = bool(sw & 8), bool(sw & 16), bool(sw & 32)
                    cfg.severities = list(groups)
                    if _pass % 2 or sw % 4 == 3:
                        # a group may be named more than once, in any order: the chosen SET is what counts
                        cfg.severities += [rng.choice(groups) for _ in range(rng.randrange(1, 3))] if groups else []
                        rng.shuffle(cfg.severities)
                    noise = [0, 0x1FFF, rng.randrange(0x2000), rng.randrange(0x2000)][_pass % 4] if _pass else rng.randrange(0x2000)
                    for sev in range(256):
                        uh.eventSeverity = sev
                        for f in flagsets:
                            uh.actionFlags = f | noise
                            pt.considerPEL(uh, cfg)
                    ctx.bulk(2048, 0 if cfg.every_pel else 2048)
                    ctx.counters["enum.points"] += 2048 if _pass == 0 else 0
        ctx.samples.append({"severity": 0x51, "flags": 0x6000, "options": "-t -O -S Critical", "groups": [5]})
        # look-ups without selection options consider every PEL
        for field in ("plid", "src", "bmcID", "pelID", "srcExcludeFile"):
            cfg = r["Config"]()
            setattr(cfg, field, "X")
            for sev in range(256):
                uh.eventSeverity = sev
                for f in flagsets:
                    uh.actionFlags = f | rng.randrange(0x2000)
                    pt.considerPEL(uh, cfg)
            ctx.bulk(2048, 2048)
        return
    # CLI layer
    root = harness.scratch_root()
    u = pm.Uniq(spec["shard"] * 10_000_000)
    names = list(GROUP_DIGITS)
    for i in range(spec["n"]):
        d = dirs.PelDir(os.path.join(root, "d%d" % i))
        ents = dirs.gen_dir_model(rng, u, rng.randrange(4, 24), bmc_style=True)
        d.extend(ents)
        if i % 3 == 1:
            # some logs present as symbolic links to files kept elsewhere: selected by the same rules as the others
            import shutil
            shutil.rmtree(os.path.join(root, "store"), ignore_errors=True)
            ctx.count("cli.symlinked_pels", dirs.symlink_entries(rng, ents, os.path.join(root, "store"), 0.4))
        excl = os.path.join(root, "excl%d.txt" % i)
        with open(excl, "w") as f:
            f.write("NOTHINGMATCHES\n")
        for _k in range(12):
            o = Sel(every=rng.random() < 0.1, s=rng.random() < 0.3, N=rng.random() < 0.3, H=rng.random() < 0.3,
                    t=rng.random() < 0.3, only=rng.random() < 0.5,
                    groups=tuple(GROUP_DIGITS[n] for n in rng.sample(names, rng.choice([0, 0, 1, 2, 3]))))
            if o.groups and rng.random() < 0.3:
                o = Sel(every=o.every, s=o.s, N=o.N, H=o.H, t=o.t, only=o.only,
                        groups=o.groups + (rng.choice(o.groups),) * rng.randrange(1, 3))      # -S Critical Critical
            argv = ["-p", d.root, "-n"] + o.argv()
            ctx.current = {"argv": argv[2:], "pels": [(e.name, hex(e.pel.sev), hex(e.pel.flags)) for e in ents]}
            IN_CLI[0] = True
            rc, out, err, tb = harness.cli(argv)
            IN_CLI[0] = False
            ctx.case(repr(argv[2:]) + repr(ctx.current["pels"]), not o.every, sample={"argv": argv[2:]} if i == 0 and _k < 2 else None)
            want = sum(1 for e in ents if select_ref(e.pel.sev, e.pel.flags, o))
            try:
                got = json.loads(out)["Number of PELs found"]
            except Exception:
                got = None
            ctx.count("cli.count_checked")
            if tb or got != want:
                ctx.violation("C07/cli-count", "peltool -n %s reported %r PELs, the rules select %d (rc=%s err=%r)" %
                              (" ".join(o.argv()), got, want, rc, (tb or err)[-300:]))
        # look-ups, no selection option: hidden / non-serviceable PELs are considered (wrapper checks every call)
        e0 = rng.choice(ents)
        # a hidden, informational PEL whose ids are all zero: look-ups by "0" must still consider it
        z = dirs.gen_dir_model(rng, u, 1, bmc_style=False)[0]
        z.pel.ph.update(bmcid=0, plid=0, eid=0)
        z.pel.uh.update(sev=0x00, flags=0x4000)
        z.name = "zero_00000000.pel"
        z.data = z.pel.encode()
        if not any(e.pel.bmcid == 0 or e.pel.plid == 0 for e in ents):
            d.add(z)
            for argv, what in ((["--bmc-id", "0"], "bmc id"), (["--plid", "00000000"], "PLID"), (["-i", "00000000"], "entry id")):
                ctx.current = {"argv": argv}
                rc, out, err, tb = harness.cli(["-p", d.root] + argv)
                ctx.count("cli.zero_id_lookups")
                try:
                    found = bool(json.loads(out))
                except ValueError:
                    found = False
                if tb or not found:
                    ctx.violation("C07/lookup-zero-id", "look-up %s for a hidden informational PEL whose %s is 0 printed %r (rc=%s %s)" %
                                  (" ".join(argv), what, out[:120], rc, (tb or "")[-200:]))
            os.unlink(z.path)
            d.entries.remove(z)
        IN_CLI[0] = True
        for argv in (["--plid", "%08X" % e0.pel.plid], ["--src", "B"], ["--src", "1"], ["--src-exclude", excl],
                     ["-i", "%08X" % e0.pel.eid], ["--bmc-id", str(e0.pel.bmcid)], ["-l"], ["-a"], ["-l", "-H", "-O"]):
            ctx.current = {"argv": argv}
            rc, out, err, tb = harness.cli(["-p", d.root] + argv)
            ctx.case(repr(argv) + str(i) + str(spec["rseed"]), True)
            if tb:
                ctx.violation("C07/cli-traceback", "peltool %s raised %s" % (argv, tb[-300:]))
        IN_CLI[0] = False
        # output level: a look-up without selection options reports hidden / non-serviceable matches too
        with_src = [e for e in ents if e.pel.primary_src()]
        some = rng.choice(with_src).pel.primary_src().m["refcode"] if with_src else "ZZ"
        shapes = {"empty": "", "newline": "\n", "comment": "# nothing\n", "nomatch": "NOTHINGMATCHES\n", "one": some + "\n"}
        for shape, content in shapes.items():
            with open(excl, "w") as f:
                f.write(content)
            want = sorted(e.pel.eid for e in with_src if shape != "one" or e.pel.primary_src().m["refcode"] != some)
            others = {e.pel.primary_src().m["refcode"] for e in with_src} - {some}
            if shape == "one" and any(o in some or some in o for o in others):
                continue                  # exclusion is a text search in the file (C10's assumption)
            lookup_result(ctx, d, ["--src-exclude", excl], want, "src-exclude(%s file)" % shape, ents)
        lookup_result(ctx, d, ["--plid", "%08X" % e0.pel.plid], sorted(e.pel.eid for e in ents if e.pel.plid == e0.pel.plid), "plid", ents)
        if with_src:
            sub = some[:rng.randrange(2, 9)]
            lookup_result(ctx, d, ["--src", sub], sorted(e.pel.eid for e in with_src if sub in e.pel.primary_src().m["refcode"]), "src", ents)
        d.remove()
        os.unlink(excl)
