"""known_findings.json: never written at run time.

entries: {"property": "C06", "status": "known"|"fixed", "key": <mechanism key>,
          "what": "...", "commit": "<sha>" (fixed only)}
Only status == "known" suppresses (turns a VIOLATION into KNOWN-FINDING)."""
import json
import os
import re
from vf import env


def load_all():
    if not os.path.exists(env.KNOWN):
        return []
    with open(env.KNOWN) as f:
        return json.load(f).get("findings", [])


def load_known(prop):
    return {e["key"]: e["what"] for e in load_all()
            if e.get("property") == prop and e.get("status") == "known"}


def slug(key):
    return re.sub(r"[^A-Za-z0-9_.-]+", "_", key)[:120]
