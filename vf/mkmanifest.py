"""Writes MANIFEST.json from the table below (kept in one place so it stays valid).
   /venv/bin/python vf/mkmanifest.py"""
import json
import os

HERE = os.path.dirname(os.path.dirname(os.path.abspath(__file__)))

CHECKS = {
    "C01": ("exploration", "4.C01",
            "Real parsePEL runs on tens of thousands of encoder-built well-formed PELs while a DataStream read log "
            "(every read/skip with its offset) and an ordered-key oracle watch: top-level names/order/numbering equal the "
            "model's, reads are contiguous, none straddles a section boundary, the cursor ends at EOF, every entry carries "
            "its own section's identity value. All ordered pairs of section kinds are driven. Held-on-observed, not a proof.",
            "trusts the independent encoder (vf/pelmodel.py), CPython, the frozen section-name table",
            "reference-model monitor + DataStream cursor log on the real decoder"),
    "C02": ("exploration", "4.C02",
            "Every displayed field of PH/UH/EH/MT/LP is compared with the encoder's model on each decode (ids "
            "numerically, names through frozen tables, action flags as sets, all target partitions); sweeps cover every "
            "byte value of each coded byte, single/pair (thorough: all 65536) action-flag words, all printable creator ids.",
            "trusts encoder + frozen tables; formatting of numbers is deliberately unconstrained",
            "post-condition monitor on parsePEL against an independent model"),
    "C03": ("exploration", "4.C03",
            "Each SRC entry (words, flags, CCIN, every callout with FRU/PCE/MRU parts, registry message filled by value, "
            "procedure descriptions) is compared with the model on every decode; word counts 1..9, all flag bytes, 0..12 "
            "callouts, all legal FRU flag combinations, fixture message registry; every registry entry is decoded again as twins "
            "that differ in one word (word counts 0..9).",
            "trusts encoder, fixture registry (vf/fixtures/registry), frozen tables",
            "post-condition monitor on parsePEL against an independent model"),
    "C04": ("exploration", "4.C04",
            "User-data sections of every decoder/no-decoder branch are decoded; built-in JSON/text compared with the "
            "content, every other case's hex dump is parsed back by an independent parser and must equal the payload "
            "bytes, with an Error note when a parser failed. Branch counters make an unreached branch inconclusive.",
            "trusts encoder, fixture plugins, the independent dump parser",
            "post-condition monitor with lossless round-trip oracle"),
    "C05": ("fault_enumeration", "4.C05",
            "For every seed PEL every proper prefix, every byte x 6 corruption values and structure-aware edits are decoded "
            "by the real decoder under icontract invariants on DataStream (cursor within bounds, reads return what was "
            "asked, cursor only moves forward) and a sys.monitoring step budget, in worker processes at optimisation level "
            "0 and -O, plus peltool -f subprocesses (exit status, traceback, stdout shape). A prefix that yields a document "
            "is a violation.",
            "trusts icontract, sys.monitoring, the encoder for seeds; wall clock is only a watchdog (inconclusive)",
            "fault enumeration under runtime contracts (icontract) + logical step budget"),
    "C06": ("exploration", "4.C06",
            "A wrapper rebound over peltool.prettyPrint checks every pretty-print of every path (direct hostile "
            "documents, PEL decodes, CLI -f/-a/-l/--plid/--src/-j): parsed output == parsed input (ordered pairs) and "
            "equality after JSON-aware whitespace removal; CLI stdout and -j files must parse.",
            "trusts json stdlib and the small JSON-aware scanner", "runtime post-condition monitor on prettyPrint"),
    "C07": ("exploration", "4.C07",
            "Exhaustive: all 256 severities x 8 relevant flag combinations x 64 switch combinations x 128 group subsets "
            "(16.7M points) of the real considerPEL are compared with a 20-line transcription of the statement by a "
            "wrapper that also stays armed during in-process CLI runs; -n counts compared with reference counts.",
            "trusts select_ref (vf/refmodels.py); irrelevant flag bits are sampled, not enumerated",
            "exhaustive enumeration under a reference-model monitor on considerPEL"),
    "C08": ("exploration", "4.C08",
            "peltool main() runs in-process on generated directories for -n/-l/-a under option sets x {plain,-r,-e,-x}; a "
            "relational checker compares counts, ordered entry-id sequences, reverse order, extension filtering, every "
            "-l field with the -a document of the same id, and --hex dumps with the files' bytes.",
            "trusts the directory model and select_ref; ASCII names without leading dot",
            "relational (metamorphic) monitor over CLI executions"),
    "C09": ("fault_enumeration", "4.C09",
            "For every directory mode M the stdout/exit status/-j files of M(D+J) are compared with M(D), J enumerated "
            "from truncations, byte corruptions, structure-aware edits, random/empty files and nested directories, "
            "classified per mode; stdout is captured in-process so stray prints of any decoder are seen.",
            "junk classification uses the decoder's own verdict on the single file",
            "metamorphic fault enumeration over CLI executions"),
    "C10": ("exploration", "4.C10",
            "--plid (5 spellings of every id incl. boundary/short/shared ids), --bmc-id, -i, --src (all-length substrings) "
            "and --src-exclude run in-process without selection options on directories mixing hidden/non-serviceable PELs; "
            "results are compared with the directory model by set/document equality.",
            "trusts the directory model; guards: unique ids in names, no reference code substring of another",
            "reference-model monitor over CLI executions"),
    "C11": ("exploration", "4.C11",
            "Recursive (path,type,size,sha1) snapshots before/after every in-process CLI run plus a sys.addaudithook log of "
            "mutating file-system calls with their repository call site: -d removes at most one matching top-level file, "
            "-D exactly the top-level files, -j creates only <name>.<eid>.json, every other mode nothing.",
            "audit hook sees Python-level events only; no symlinks",
            "snapshot differ + audit-hook event log checker"),
    "C12": ("fault_enumeration", "4.C12",
            "Each --clean scenario runs under strace; every syscall in the window from the output's first syscall to exit "
            "gets an error injection fitting the call and a SIGKILL crash point (strace -e inject). An offline checker over "
            "the recorded syscall log requires unlink(input) to be preceded by the successful open/complete writes/close of "
            "that input's output; the post-state is checked too; an in-process twin (failing file proxy, failing stdout, "
            "os.remove audit events) repeats it over many PELs x every operation index; file-output scenarios are re-run under "
            "RLIMIT_FSIZE (kernel-made short write, then EFBIG) and judged by the post-state oracle.",
            "process-level only: no fsync/power-loss claim; trusts strace's injection and -y path decoration",
            "syscall trace checker with fault and crash-point injection (strace)"),
    "C13": ("exploration", "4.C13",
            "A wrapper rebound over every alias of hexdump checks each call made by any code path (line count, equal "
            "widths, offsets, digits, default-layout round trip through the repo's parse and an independent parser); "
            "parse() is driven with independent renderings of both I/O-drawer formats incl. short last lines and comment "
            "lines; peltool -x output is parsed back to the files' bytes.",
            "trusts the independent renderers/parser in vf/iomodels.py and vf/pelmodel.py",
            "runtime post-condition monitor with round-trip oracle"),
    "C14": ("exploration", "4.C14",
            "Wrappers over every alias of parse_ilog_data and over PTETable.get_entry compare each call with an "
            "independent model on harness-written tables (so the oracle knows the table) and on both shipped tables "
            "(independent scanner, size cross-checked with PTE_TABLE_SIZE); the section inside a PEL through peltool in a process "
            "of its own (-f/-a/-i/-j/-j -x), link-farm and C-locale children must show the plug-in's result.",
            "trusts ilog_ref; Python's % operator is the formatting semantics",
            "reference-model monitor on the real decoder"),
    "C15": ("exploration", "4.C15",
            "Wrappers over every alias of parse_trace_data and TraceStringFile.get_trace_string compare each call with "
            "trace_ref / find_string on synthetic and shipped string files; buffers carry oversized/mis-trailed/truncated "
            "entries and are additionally truncated at every k-th offset; trace sections inside PELs go through peltool in a "
            "process of its own with %c arguments that need escaping or cannot be encoded.",
            "trusts trace_ref; both readings accepted when the declared size falls inside an entry",
            "reference-model monitor on the real decoder"),
    "C16": ("exploration", "4.C16",
            "Wrappers over parse_hlog_data / get_hlog_fields compare each call with hlog_ref on synthetic and shipped "
            "field tables, every data length 0..record+8 and a single non-zero byte at every offset; the section inside a PEL "
            "through peltool, a link-farm installation and the C locale give the same result.",
            "trusts hlog_ref and the default dump layout", "reference-model monitor on the real decoder"),
    "C17": ("exploration", "4.C17",
            "A wrapper over parse_dump_data compares the output with the model composed from the C14/C15 models; wrappers "
            "over dump.parse_ilog_data/parse_trace_data log the slices actually handed down and assert they partition the "
            "input in address order; parse_dump_file on both text formats and the stand-alone script must agree with the "
            "raw-bytes decode.",
            "trusts the region model; each buffer name recognised at most once",
            "reference-model + partition monitor on recorded slices"),
    "C18": ("exploration", "4.C18",
            "A sys.meta_path recorder logs every import request for parser packages, fixture parser modules log every call "
            "with its arguments, wrappers log m2c00's routing; each decode is checked for the right module, the exact "
            "subtype/version/payload or reference code/words, containment of raising/None-returning parsers (differential "
            "decode against a twin PEL with a well-behaved parser) and for no import/call at all with plugins disabled "
            "(also in fresh subprocesses reporting sys.modules).",
            "fixture modules stand for arbitrary third-party parsers; trusts importlib's meta_path protocol",
            "import-request and call-log monitors + differential decode"),
    "C19": ("exploration", "4.C19",
            "Histories of decode operations run in children forked from a pristine zygote process; after every operation "
            "the result is compared with a fresh reference (a child that decoded only that PEL), scanned for unique tokens "
            "of other PELs, and the four import caches are checked against per-module fresh-import verdicts; violating "
            "histories are shrunk by delta debugging; -a/-a -r arrays are compared with per-file fresh documents; several "
            "main() invocations in one process each print what they print in a process of their own; histories include "
            "decodes during which a sys.meta_path failpoint fails the first import of a plug-in package (EMFILE), and "
            "logs built from the shadowed pattern pairs of the shipped PTE tables.",
            "os.fork gives history-free references; fixture plugins are pure functions of their arguments",
            "differential history monitor with fork-fresh references + cache invariant at quiescent points"),
    "C20": ("exploration", "4.C20",
            "Wrappers over ParserData.get_signature/get_reg_data and the oe500 plugin entry points compare every call with "
            "a byte-position model under absent/full/partial chip data, through direct calls, 0xE500 user-data sections and "
            "BD..E5.. primary SRCs.",
            "trusts sig_ref/regdump_ref and the fixture chip data layout", "reference-model monitor on the real functions"),
}

TECH_DEFAULT = "runtime monitoring"


def main():
    props = [json.loads(l) for l in open(os.path.join(HERE, "properties.jsonl"))]
    checks = []
    for p in props:
        pid = p["id"]
        if pid not in CHECKS:
            continue
        level, ref, text, note, tech = CHECKS[pid]
        checks.append({
            "property_id": pid,
            "quick_cmd": "/venv/bin/python vf/run.py %s --tier quick" % pid,
            "thorough_cmd": "/venv/bin/python vf/run.py %s --tier thorough" % pid,
            "evidence_file": "evidence/%s.json" % pid,
            "replay_cmd_template": "/venv/bin/python vf/run.py %s --replay {path}" % pid,
            "engine": "vf",
            "level_claimed": {"category": level, "text": text, "design_ref": "DESIGN.md " + ref},
            "level_note": note,
            "technique": tech,
        })
    na = [{"property_id": p["id"], "reason": "check not built yet (work in progress)"} for p in props if p["id"] not in CHECKS]
    m = {
        "version": 1,
        "setup_cmd": "/venv/bin/python vf/setup.py",
        "hooks": {"guard": "PEL_PARSERS_VERIF",
                  "enable": "no source hooks: monitors attach from the harness process (contracts, wrappers, "
                            "audit hooks, strace); the variable is set for child processes only",
                  "baseline_off_cmd": "cd /repo && /venv/bin/python -m pytest -ra -q -p no:cacheprovider --timeout=900 "
                                      "--continue-on-collection-errors",
                  "source_commits": [], "add_only": True},
        "engines": [{"name": "vf", "path": "vf/run.py", "serves_properties": sorted(CHECKS),
                     "kind_free_text": "runtime monitoring: wrappers/contracts on the real functions, reference-model "
                                       "oracles, DataStream cursor logs, audit-hook and strace event logs with offline "
                                       "trace checkers, syscall fault injection"}],
        "checks": checks,
        "not_applicable": na,
        "notes": "see DESIGN.md; known_findings.json lists repaired defects (fixed:) - no open known findings",
    }
    with open(os.path.join(HERE, "MANIFEST.json"), "w") as f:
        json.dump(m, f, indent=1)
        f.write("\n")
    print("MANIFEST: %d checks, %d not yet claimed" % (len(checks), len(na)))


if __name__ == "__main__":
    main()
