from vf import fxlog
fxlog.imported(__name__)


def getMaintProcDesc(procedure):
    return fxlog.callout(__name__, procedure)
