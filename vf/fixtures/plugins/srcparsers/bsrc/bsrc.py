from vf import fxlog
fxlog.imported(__name__)


def parseSRCToJson(refcode, word2, word3, word4, word5, word6, word7, word8, word9):
    return fxlog.src(__name__, refcode, word2, word3, word4, word5, word6, word7, word8, word9)
