import os
from vf import fxlog
fxlog.imported(__name__)
with open(os.path.join(os.path.dirname(__file__), "zsrc_table_that_was_never_shipped.json")) as _f:
    TABLE = _f.read()


def parseSRCToJson(refcode, word2, word3, word4, word5, word6, word7, word8, word9):
    return fxlog.src(__name__, refcode, word2, word3, word4, word5, word6, word7, word8, word9)
