from vf import fxlog
fxlog.imported(__name__)
raise ValueError("fx src parser module cannot initialise (raised at import)")
