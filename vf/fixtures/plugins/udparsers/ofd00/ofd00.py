from vf import fxlog
fxlog.imported(__name__)
raise RuntimeError("fx module broken at import")
