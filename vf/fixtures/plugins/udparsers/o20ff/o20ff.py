from vf import fxlog
fxlog.imported(__name__)


def parseUDToJson(subtype, version, data):
    return fxlog.ud(__name__, subtype, version, data)
