from vf import fxlog
fxlog.imported(__name__)
import vf_module_that_does_not_exist  # noqa
