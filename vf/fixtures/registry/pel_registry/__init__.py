"""Fixture stand-in for the pel_registry distribution (message registry + component id files)."""
import os


def get_registry_path():
    return os.path.join(os.path.dirname(__file__), "message_registry.json")
