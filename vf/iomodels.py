"""Independent executable models of the I/O-drawer decoders (C13-C17), written
from the property statements, plus writers for synthetic PTE tables, trace
string files and history-log field tables (the oracle knows what it wrote)."""
import re
import struct

DIVIDER = "-------------------------------------------------------------------------"
HDR_START = b"\x02\x20\x01\x42"
BUFFER_NAMES = ["IICS", "IICM", "POWR", "FANS", "INFO", "ERRL"]


# -- hex dumps ---------------------------------------------------------------
def ref_hexdump(data: bytes):
    """default layout: %08X, 5 blanks, 4-byte groups separated by 2 blanks (padded to 38), 5 blanks, text (padded to 16)"""
    data = bytes(data)
    out = []
    for off in range(0, len(data), 16):
        c = data[off:off + 16]
        groups = "  ".join(c[i:i + 4].hex().upper() for i in range(0, len(c), 4))
        text = "".join(chr(b) if 0x20 <= b <= 0x7E else "." for b in c)
        out.append("%08X     %s     %s" % (off, groups.ljust(38), text.ljust(16)))
    return out


RAW_TEXT = {0x09, 0x0B, 0x0C, 0x1C, 0x1D, 0x1E, 0x1F, 0x7F, 0x85, 0xA0, 0xE9}


def text_col(c: bytes, raw=False):
    """character column: '.' for non-printable bytes; `raw`: a tool that prints some of them as they are (TAB, VT, FF,
    FS/GS/RS/US, DEL and Latin-1 NEL/NBSP/e-acute) - never CR or LF, which would end the line"""
    return "".join(chr(b) if 0x20 <= b <= 0x7E or (raw and b in RAW_TEXT) else "." for b in c)


def render_bmc(data: bytes, lower=False, strip=False, raw=False):
    """'AAAA:  DDDDDDDD DDDDDDDD DDDDDDDD DDDDDDDD  <CCCCCCCCCCCCCCCC>' with a column-aligned short last line"""
    out = []
    for off in range(0, len(data), 16):
        c = data[off:off + 16]
        groups = " ".join(c[i:i + 4].hex().upper() for i in range(0, len(c), 4))
        if lower:
            groups = groups.lower()
        text = text_col(c, raw)
        ln = "%04X:  %s  <%s>" % (off & 0xFFFF, groups.ljust(35), text.ljust(16))
        if strip and len(c) < 16:
            ln = ("%04X:  %s" % (off & 0xFFFF, groups)).rstrip()
        out.append(ln)
    return out


def render_old(data: bytes, lower=False, strip=False, raw=False, trim=None):
    """'DD DD ... DD CCCCCCCCCCCCCCCC' (pre-BMC web interface) with a column-aligned short last line"""
    out = []
    for off in range(0, len(data), 16):
        c = data[off:off + 16]
        hx = " ".join("%02X" % b for b in c)
        if lower:
            hx = hx.lower()
        text = text_col(c, raw)
        ln = "%s %s" % (hx.ljust(47), text.ljust(16))
        if strip and len(c) < 16:
            ln = hx
        if trim == "rstrip":
            ln = ln.rstrip()              # an editor / mail client removed trailing blanks (rows ending in 0x20 bytes get shorter)
        elif trim == "notext":
            ln = hx                       # the character column was not copied at all
        out.append(ln)
    return out


# -- shared ------------------------------------------------------------------
def fmt_ts(ts: int) -> str:
    if ts >= 0xFFFF:
        return "--------"
    h, rem = divmod(ts, 3600)
    m, s = divmod(rem, 60)
    return "%2d:%02d:%02d" % (h, m, s)


def pyformat(fmt, args):
    try:
        return fmt % tuple(args)
    except Exception:
        return fmt


# -- ILOG --------------------------------------------------------------------
def pat_match(pat: str, pte: int) -> bool:
    s = "%08X" % pte
    if len(pat) != 8:
        return False
    return all(p == "*" or p.upper() == c for p, c in zip(pat, s))


def ilog_entry_message(pte, table):
    """table: [(pattern, message, params)] in file order -> message"""
    reported = (pte >> 28) == 0xE and bool(pte & 0x00040000)
    for pat, msg, params in table:
        if pat_match(pat, pte) or (reported and pat_match(pat, pte & ~0x00040000 & 0xFFFFFFFF)):
            b = struct.pack(">I", pte)
            vals = [b[p - 1] for p in params if 1 <= p <= 4]
            return pyformat(msg, vals) + (" - PEL entry created" if reported else "")
    return "Undefined"


def ilog_ref(data: bytes, table):
    data = bytes(data)
    lines = ["hh:mm:ss seq  pppppppp description", "-------- ---- -------- ------------------------------------"]
    for off in range(0, len(data) - len(data) % 8, 8):
        ts, seq, pte = struct.unpack(">HHI", data[off:off + 8])
        if ts == 0 and seq == 0 and pte == 0:
            continue
        lines.append("%s %04X %08X %s" % (fmt_ts(ts), seq, pte, ilog_entry_message(pte, table)))
    return lines


def c_escape(s):
    return s.replace('"', '\\"')


UNI_DIGITS = ["\u0660\u0661\u0662\u0663\u0664\u0665\u0666\u0667\u0668\u0669", "\uff10\uff11\uff12\uff13\uff14\uff15\uff16\uff17\uff18\uff19",
              "\u0966\u0967\u0968\u0969\u096a\u096b\u096c\u096d\u096e\u096f"]


def odd_number(rng, n):
    """a decimal number spelled so that int() reads it but a field of ASCII digits does not: digits of another script, a
    sign, an underscore between digits, a hex / float spelling"""
    s = str(n)
    r = rng.randrange(6)
    if r <= 1:
        d = rng.choice(UNI_DIGITS)
        return "".join(d[int(c)] for c in s)
    if r == 2:
        return "+" + s
    if r == 3 and len(s) >= 2:
        return s[0] + "_" + s[1:]
    if r == 4:
        return s + ".0"
    return "0x%x" % n


def write_pte_table(path, table, rng=None, hlog_fields=None, style=0):
    """table: [(pattern, message, params)].  Returns nothing; the oracle keeps `table`."""
    L = ["// generated by the verification harness", "struct pte_entry_struct", "{", "  const char* pte;", "};", "",
         "#define PTE_TABLE_SIZE %d" % len(table)]
    start = ("static " if style & 1 else "") + "struct pte_entry_struct static_pte_entry_table[PTE_TABLE_SIZE] = "
    if style & 2:
        L.append(start + "{")
    else:
        L += [start, "{"]
    cuts = set()
    if style & 16 and rng and len(table) >= 2:
        # the table defined in several blocks (per-component / per-#ifdef), each closed by its own "The End" element;
        # lines that look like entries but stand outside every block are not part of the table
        cuts = set(rng.sample(range(1, len(table)), min(len(table) - 1, rng.choice([1, 1, 2, 3]))))
        L.insert(len(L) - (1 if style & 2 else 2), '  { "********", "decoy before any table", {}, "decoy.cpp", 1 },')
    for k, (pat, msg, params) in enumerate(table):
        if k in cuts:
            L += ['  { ""        , "The End" }', "};", "#ifdef BLOCK_%d" % k,
                  '  { "********", "decoy between two blocks", {}, "decoy.cpp", 2 },']
            if style & 2:
                L.append(start + "{")
            else:
                L += [start, "{"]
        ps = ", ".join(str(p) for p in params) if not (rng and rng.random() < 0.3) else ",".join(str(p) for p in params)
        sp = " " * (rng.randrange(0, 3) if rng else 1)
        if rng and style & 128 and rng.random() < 0.3:
            # almost an entry, with the pattern of the real one that follows: its line-number field is no run of ASCII digits
            L.append('  { "%s", "near miss %d", {}, "near%d.cpp", %s },' % (pat, k, k % 7, odd_number(rng, 100 + k)))
        L.append('  {%s"%s",%s"%s", {%s}, "file%d.cpp", %d },' % (sp, pat, sp, c_escape(msg), ps, k % 7, 100 + k))
        if rng and rng.random() < 0.05:
            L.append("  // a comment line inside the table")
    L.append('  { ""        , "The End" }')
    L.append("};")
    if cuts:
        L.append('  { "********", "decoy after the last table", {}, "decoy.cpp", 3 },')
    L.append("")
    if hlog_fields is not None:
        if style & 32:
            # lines that look like field declarations but stand outside the history-log table (before anything else in the
            # file, and after the table's end): not fields
            L.insert(0, '  { 2, "hl_decoy_before_everything" },')
        L += hlog_table_lines(hlog_fields, style)
        if style & 32:
            L.append('  { 1, "hl_decoy_after_the_table" },')
    with open(path, "w", encoding="utf-8") as f:
        f.write("\n".join(L) + "\n")


def parse_shipped_pte_table(path):
    """Independent line scanner for the shipped headers: returns ([(pattern, message, params)], declared size)."""
    table, declared, inside = [], None, False
    with open(path) as f:
        for ln in f:
            m = re.match(r"\s*#define\s+PTE_TABLE_SIZE\s+(\d+)", ln)
            if m:
                declared = int(m.group(1))
            if "static_pte_entry_table" in ln and "=" in ln:
                inside = True
                continue
            if not inside:
                continue
            s = ln.strip()
            if s.startswith('{ ""') or s.startswith('{""'):
                inside = False
                continue
            if not s.startswith("{") or len(s) < 3:
                continue
            # tokenise: two C strings, a brace list, a C string, a number
            strs, i, n = [], 1, len(s)
            nums = None
            while i < n and len(strs) < 2:
                if s[i] == '"':
                    j, buf = i + 1, []
                    while s[j] != '"':
                        if s[j] == "\\" and s[j + 1] == '"':
                            buf.append('"')
                            j += 2
                        else:
                            buf.append(s[j])
                            j += 1
                    strs.append("".join(buf))
                    i = j + 1
                else:
                    i += 1
            b0 = s.index("{", i)
            b1 = s.index("}", b0)
            nums = [int(x) for x in re.findall(r"\d", s[b0 + 1:b1])]
            table.append((strs[0], strs[1].strip(), tuple(nums)))
    return table, declared


# -- history log -----------------------------------------------------------------
def hlog_define_size(fields):
    """record length rounded up to a multiple of 16 (the shipped headers define 64 for a 46-byte record)"""
    n = sum(sz for _, sz in fields)
    return max(16, (n + 15) // 16 * 16)


def hlog_table_lines(fields, style=0):
    L = ["struct mex_hlog_field", "{", "  int size;", "};", "#define MEX_HLOG_FIELD_COUNT %d" % len(fields)]
    if style & 1:
        L.append("#define MEX_HLOG_SIZE %d" % hlog_define_size(fields))        # the size of the log area, as in the shipped headers
    start = ("static " if style & 1 else "") + "struct mex_hlog_field mex_hlog_fields[MEX_HLOG_FIELD_COUNT] ="
    if style & 2:
        L.append(start + " {")
    else:
        L += [start, "{"]
    cut = len(fields) // 2 if (style & 64 and len(fields) >= 2) else None
    for k, (name, size) in enumerate(fields):
        last = k == len(fields) - 1
        if k == cut:
            # the fields declared in two array definitions (base + extension), one after the other
            L += ["};", "", "// extension", start.replace("mex_hlog_fields[", "mex_hlog_fields_ext[") + (" {" if style & 2 else "")]
            if not style & 2:
                L.append("{")
        if style & 128 and k % 4 == 2:
            # almost a declaration: a size that is neither 1 nor 2 / a size in digits of another script
            L.append('  { %s, "hl_near_miss_%d" },' % (["3", "\uff12", "0", "+1", "\u0661"][k % 5], k))
        L.append('  { %d, "%s" }%s ' % (size, name, "" if (last and style & 4) else ","))
        if style & 8 and k % 5 == 1:
            L.append('  // retired \x0c  { 2, "hl_retired_%d" },' % k)          # commented out: not a declaration
    L.append("};")
    return L


def parse_shipped_hlog_fields(path):
    fields, inside, declared = [], False, None
    with open(path) as f:
        for ln in f:
            m = re.match(r"\s*#define\s+MEX_HLOG_FIELD_COUNT\s+(\d+)", ln)
            if m:
                declared = int(m.group(1))
            if "mex_hlog_fields" in ln and "=" in ln:
                inside = True
                continue
            if inside and ln.strip().startswith("};"):
                inside = False
            if inside:
                m = re.match(r'\s*\{\s*(\d+)\s*,\s*"([^"]*)"\s*\}', ln)
                if m:
                    fields.append((m.group(2), int(m.group(1))))
    return fields, declared


def hlog_ref(data: bytes, fields):
    data = bytes(data)
    lines = ["Hex Dump", "--------"] + ref_hexdump(data) + ["", "Non-Zero Field Values", "---------------------"]
    idx = 0
    for name, size in fields:
        if idx + size > len(data):
            break
        v = int.from_bytes(data[idx:idx + size], "big")
        idx += size
        if v != 0:
            lines.append("%s: 0x%0*X" % (name, 2 * size, v))
    return lines


# -- trace -------------------------------------------------------------------
INDENT = " " * 20
TYPE_BIN = 0x4644
TYPE_TRACE = 0x4654


def write_string_file(path, strings, rng=None):
    """strings: [(hash, message, location)]"""
    L = ["#FSP_TRACE_v2|||generated by the verification harness|||BUILD:fx"]
    for h, msg, loc in strings:
        lead = " " * (rng.randrange(0, 3) if rng else 0)
        if rng and rng.random() < 0.12:
            # almost a trace string, in FRONT of the real one with the same hash (the first exact match decides)
            L.append("%s%s||NEAR MISS exact %d||near.cpp(%d)" % (lead, odd_number(rng, h), len(L), len(L)))
        L.append("%s%d||%s||%s" % (lead, h, msg, loc))
        if rng and rng.random() < 0.05:
            L.append("not a trace string line")
    if rng and strings and rng.random() < 0.5:
        # ... and at the END of the file, agreeing with real hashes modulo 100000 (the last partial match decides)
        for _ in range(rng.choice([1, 2, 4])):
            h = rng.choice(strings)[0] % 100000 + 100000 * rng.randrange(0, 42949)
            L.append("%s||NEAR MISS partial %d||near.cpp(%d)" % (odd_number(rng, h), len(L), len(L)))
    with open(path, "w", encoding="utf-8") as f:
        f.write("\n".join(L) + "\n")


def parse_shipped_string_file(path):
    out = []
    with open(path) as f:
        for ln in f:
            ln = ln.rstrip("\n")
            m = re.match(r"^\s*(\d+)\s*\|\|", ln)
            if not m:
                continue
            rest = ln[m.end():]
            k = rest.rfind("||")
            if k < 0:
                continue
            out.append((int(m.group(1)), rest[:k].strip(), rest[k + 2:].strip()))
    return out


def find_string(strings, h):
    partial = None
    for s in strings:
        if s[0] == h:
            return s, False
        if s[0] % 100000 == h % 100000:
            partial = s
    return (partial, True) if partial is not None else (None, False)


def trace_ref(data: bytes, strings):
    """returns (lines, alt_lines or None): alt = without the last entry when the declared size falls inside it"""
    data = bytes(data)
    if len(data) < 32:
        return ["Unable to parse trace data."] + ref_hexdump(data), None
    ver = data[0]
    comp = data[4:16].decode("ascii", "ignore").rstrip("\0").rstrip(" ")
    size, wrap, _next = struct.unpack(">III", data[20:32])
    head = ["Component: %s" % comp, "Version: %d" % ver, "Size: %d" % size, "Times Wrapped: %d" % wrap, "",
            "HH:MM:SS Seq  Line  Entry Data", "-------- ---- ----- ----------"]
    idx, n = 32, len(data)
    blocks = []
    straddle = False
    while idx < size:
        if idx + 16 > n:
            break
        tbh, tbl, length, tag, h, line = struct.unpack(">HHHHII", data[idx:idx + 16])
        p = idx + 16
        if length > 1024:
            break
        d = b""
        if length:
            if p + length > n:
                break
            d = data[p:p + length]
            p += length
            if length % 4:
                pad = 4 - length % 4
                if p + pad > n:
                    break
                p += pad
        if p + 4 > n:
            break
        esize = struct.unpack(">I", data[p:p + 4])[0]
        p += 4
        if esize != p - idx:
            break
        blocks.append(trace_entry_lines(tbh, tbl, tag, h, line, d, strings))
        straddle = p > size
        idx = p
    lines = head + [x for b in blocks for x in b]
    alt = head + [x for b in blocks[:-1] for x in b] if straddle and blocks else None
    return lines, alt


def trace_entry_lines(tbh, tbl, tag, h, line, d, strings):
    s, partial = find_string(strings, h)
    binary = tag == TYPE_BIN
    if s is not None:
        args = []
        if not binary:
            for i in range(0, min(len(d) // 4, 5)):
                args.append(struct.unpack(">I", d[4 * i:4 * i + 4])[0])
        msg = pyformat(s[1], args)
    else:
        msg = "No trace string found with hash value %d" % h
    out = ["%s %04X %5d %s" % (fmt_ts(tbh), tbl, line, msg)]
    if s is not None and partial:
        out.append("%sWarning: Partial match with trace string from %s" % (INDENT, s[2]))
    if binary or s is None or partial:
        out += [INDENT + x for x in ref_hexdump(d)]
    return out


def make_trace_header(name: bytes, size, ver=2, wrap=0, next_free=0, hdr=(0x20, 0x01, 0x42), res=0):
    return bytes([ver, hdr[0], hdr[1], hdr[2]]) + name.ljust(12, b"\0")[:12] + struct.pack(">IIII", res, size, wrap, next_free)


def make_trace_entry(tbh, tbl, tag, h, line, d: bytes, bad_trailer=0, length=None):
    ln = len(d) if length is None else length
    body = struct.pack(">HHHHII", tbh, tbl, ln, tag, h, line) + d
    if len(d) % 4:
        body += b"\0" * (4 - len(d) % 4)
    return body + struct.pack(">I", (len(body) + 4 + bad_trailer) & 0xFFFFFFFF)


# -- dump --------------------------------------------------------------------
def dump_regions(data: bytes):
    """[(kind, start, end)] partition of the dump (kind 'ilog' or 'trace')"""
    data = bytes(data)
    offs = []
    for name in BUFFER_NAMES:
        k = data.find(HDR_START + name.encode())
        if k != -1:
            offs.append(k)
    offs.sort()
    regions = [("ilog", 0, offs[0] if offs else len(data))]
    for i, o in enumerate(offs):
        regions.append(("trace", o, offs[i + 1] if i + 1 < len(offs) else len(data)))
    return regions


def dump_ref(data: bytes, table, strings):
    """returns list of alternatives (each a list of lines) - more than one only where a trace region is ambiguous"""
    data = bytes(data)
    if not data:
        return [[]]
    alts = [[]]
    for kind, a, b in dump_regions(data):
        if kind == "ilog":
            block = ["ILOG", ""] + ilog_ref(data[a:b], table) + ["", DIVIDER, ""]
            alts = [x + block for x in alts]
        else:
            lines, alt = trace_ref(data[a:b], strings)
            blocks = [["Trace", ""] + lines + ["", DIVIDER, ""]]
            alts = [x + bl for x in alts for bl in blocks]
    return alts
